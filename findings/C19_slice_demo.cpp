// g++ -std=c++17 -I/repo/src/python/PyImath -I/repo/src/Imath -I/verif/build/config -I/usr/include/python3.11 slice_demo.cpp /repo/src/python/PyImath/PyImathFixedArray.cpp -lboost_python311 -lpython3.11
#include <Python.h>
#include "PyImathFixedArray.h"
#include <cstdio>
using namespace PyImath;
static int probe (FixedArray<int> &a, PyObject *start, PyObject *stop, PyObject *step, const char *what, long expect_len)
{
    PyObject *sl = PySlice_New (start, stop, step);
    int bad = 0;
    try
    {
        FixedArray<int> r = a.getslice (sl);
        printf ("%s -> length %ld (Python list: %ld)\n", what, (long) r.len (), expect_len);
        bad = r.len () != expect_len;
    }
    catch (std::exception &e) { printf ("%s -> RAISES %s (Python list: empty list, length %ld)\n", what, e.what (), expect_len); bad = 1; }
    Py_DECREF (sl);
    return bad;
}
int main ()
{
    Py_Initialize ();
    int bad = 0;
    FixedArray<int> e (0), a (3);
    a[0] = 1; a[1] = 2; a[2] = 3;
    PyObject *m1 = PyLong_FromLong (-1), *m10 = PyLong_FromLong (-10);
    bad |= probe (e, NULL, NULL, m1, "FixedArray(0)[::-1]", 0);
    bad |= probe (a, m10, NULL, m1, "FixedArray([1,2,3])[-10::-1]", 0);
    bad |= probe (a, NULL, NULL, m1, "FixedArray([1,2,3])[::-1]", 3);
    return bad;
}
