#include <ImathLine.h>
#include <ImathLineAlgo.h>
#include <cstdio>
using namespace Imath;
int main ()
{
    Line3d a (V3d (0, 0, 0), V3d (1, 0, 0)), b (V3d (0, 0, 1), V3d (1, 1, 1)); // skew lines in the planes z = 0 and z = 1: distance 1
    V3d p1, p2;
    bool ok = closestPoints (a, b, p1, p2);
    printf ("distanceTo(line) = %.6f, closestPoints ok=%d |p1-p2| = %.6f, closestPointTo(line)=(%g %g %g)\n", a.distanceTo (b), ok, (p1 - p2).length (), a.closestPointTo (b).x, a.closestPointTo (b).y, a.closestPointTo (b).z);
    return 0;
}
