#include <ImathBoxAlgo.h>
#include <cstdio>
using namespace Imath;
int main ()
{
    int bad = 0;
    Box3f empty, r (V3f (0, 0, 0), V3f (1, 1, 1));
    M44f m;
    transform (empty, m, r);
    printf ("transform(empty, I, r): r.isEmpty()=%d (value form: %d)\n", r.isEmpty (), transform (empty, m).isEmpty ());
    bad |= !r.isEmpty ();
    Box3f inf; inf.makeInfinite ();
    r = Box3f (V3f (0, 0, 0), V3f (1, 1, 1));
    transform (inf, m, r);
    printf ("transform(infinite, I, r): r.isInfinite()=%d (value form: %d)\n", r.isInfinite (), transform (inf, m).isInfinite ());
    bad |= !r.isInfinite ();
    M44f p; p[0][3] = 0.1f; // projective
    Box3f b (V3f (1, 1, 1), V3f (2, 2, 2));
    r = Box3f (V3f (-100, -100, -100), V3f (100, 100, 100));
    transform (b, p, r);
    Box3f v = transform (b, p);
    printf ("projective: out form [%g..%g] value form [%g..%g]\n", r.min.x, r.max.x, v.min.x, v.max.x);
    bad |= !(r == v);
    return bad;
}
