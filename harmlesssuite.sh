#!/bin/sh
# usage: harmlesssuite.sh [ids...] - behaviour-preserving edits (harmless/<id>/patch.diff): every check must stay quiet (rc=0)
cd /verif
W=/tmp/harmless_wt
git -C /repo worktree remove --force $W 2>/dev/null
git -C /repo worktree add -q --detach $W HEAD || exit 3
ids="$@"; [ -z "$ids" ] && ids=$(ls harmless)
for id in $ids; do
  p=$(echo $id | cut -d- -f1)
  git -C $W checkout -q -- . ; git -C $W clean -fdq
  if ! git -C $W apply /verif/harmless/$id/patch.diff 2>/dev/null; then echo "$id apply-failed"; continue; fi
  VERIF_REPO=$W ./check $p --tier quick > /tmp/harmless_$id.log 2>&1; rc=$?
  echo "$id rc=$rc $(tail -1 /tmp/harmless_$id.log | cut -c1-140)"
done
git -C /repo worktree remove --force $W
rm -rf /verif/build/scratch_tmp_harmless_wt
