/* C04, stream output clause: specification over the ghost stream log (harness/cxx2c_rt.h).
 * "components in declaration order inside one pair of parentheses as whitespace-separated tokens
 *  (vectors, colours, shears, quaternions on one line with single spaces, matrices one row per line);
 *  tokenising yields exactly one token per component" */
#ifndef C04_STREAM_H
#define C04_STREAM_H
static inline _Bool spec_is_ws (struct cxx2c_ostream *os, int i) { return os->kind[i] == CXX2C_TOK_CHAR && (os->val[i] == ' ' || os->val[i] == '\n'); }
/* expected: kind and raw value of each of the ncomp components, in order; rowlen = components per line (ncomp for one-liners) */
static inline _Bool spec_stream_ok (struct cxx2c_ostream *os, int ekind, const unsigned long *eval, int ncomp, int rowlen, _Bool single_spaces)
{
    int i = 0;
    if (os->n > CXX2C_OS_MAX) return 0;
    if (!(i < os->n && os->kind[i] == CXX2C_TOK_CHAR && os->val[i] == '(')) return 0;
    i++;
    for (int k = 0; k < ncomp; k++)
    {
        /* field-width manipulators do not produce output */
        while (i < os->n && os->kind[i] == CXX2C_TOK_SETW) i++;
        /* leading blanks of a continuation line are white space */
        while (k > 0 && k % rowlen == 0 && !single_spaces && i < os->n && spec_is_ws (os, i)) i++;
        while (i < os->n && os->kind[i] == CXX2C_TOK_SETW) i++;
        if (!(i < os->n && os->kind[i] == ekind && os->val[i] == eval[k])) return 0;   /* the k-th component, nothing else */
        i++;
        if (k < ncomp - 1)
        {
            /* at least one white-space character separates consecutive components */
            if (!(i < os->n && spec_is_ws (os, i))) return 0;
            if (single_spaces)
            {
                if (os->val[i] != ' ') return 0;
                i++;
            }
            else
            {
                _Bool nl = 0;
                while (i < os->n && spec_is_ws (os, i)) { if (os->val[i] == '\n') nl = 1; i++; }
                if ((k + 1) % rowlen == 0 && !nl) return 0;    /* one row per line */
                if ((k + 1) % rowlen != 0 && nl) return 0;
            }
        }
    }
    if (!(i < os->n && os->kind[i] == CXX2C_TOK_CHAR && os->val[i] == ')')) return 0;
    i++;
    if (!single_spaces && i < os->n && os->kind[i] == CXX2C_TOK_CHAR && os->val[i] == '\n') i++;
    return i == os->n;
}
#endif
