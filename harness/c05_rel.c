/* C05, spellings: the static, operator, compound-assignment and member spellings of each product return
 * identical results (relational lemmas over the real float instantiations; arithmetic uninterpreted, mode ABS). */
#include "vf.h"
#include "c04_spec.h"
#include "c05_names_f.h"
#ifdef VF_NATIVE
#include "c05x.fwd.c"
#else
#include "c05x.c"
#endif
typedef struct Matrix44_float M44;
typedef struct Matrix33_float M33;
typedef struct Matrix22_float M22;
typedef struct Vec3_float V3;
typedef struct Vec2_float V2;
typedef struct Vec4_float V4;
typedef struct Quat_float QF;
#define IN_M(n, name, in) VF_IN_ARR (float, in, n * n); struct Matrix##n##n##_float name; for (int vi = 0; vi < n * n; vi++) name.x[vi / n][vi % n] = in[vi]
#define MEQ(n, a, b) do { for (int i = 0; i < n; i++) for (int j = 0; j < n; j++) VF_ASSERT (FEQ ((a).x[i][j], (b).x[i][j]), "spellings agree entry for entry"); } while (0)
#define H_MMREL(n) void h_rel_mm##n##n (void) { IN_M (n, a, in_a); IN_M (n, b, in_b); struct Matrix##n##n##_float r1 = G_mm##n##n (&a, &b); struct Matrix##n##n##_float c = a; G_mmeq##n##n (&c, &b); MEQ (n, r1, c); VF_END (); }
H_MMREL (2)
H_MMREL (3)
void h_rel_mm44 (void)
{
    IN_M (4, a, in_a); IN_M (4, b, in_b);
    M44 r1 = G_mm44 (&a, &b); M44 c = a; G_mmeq44 (&c, &b); M44 r3 = G_multiply2 (&a, &b); M44 r4; memset (&r4, 0, sizeof r4); G_multiply3 (&a, &b, &r4);
    MEQ (4, r1, c); MEQ (4, r1, r3); MEQ (4, r1, r4);
    VF_END ();
}
void h_rel_vecmat (void)
{
    IN_M (4, m, in_m); VF_IN_ARR (float, in_v, 3); V3 v = { in_v[0], in_v[1], in_v[2] };
    V3 r1 = G_v3m44 (&v, &m); V3 c = v; G_v3m44eq (&c, &m); V3 d; memset (&d, 0, sizeof d); G_mvm44 (&m, &v, &d);
    VF_ASSERT (FEQ (r1.x, c.x) && FEQ (r1.y, c.y) && FEQ (r1.z, c.z), "v * M == (v *= M)");
    VF_ASSERT (FEQ (r1.x, d.x) && FEQ (r1.y, d.y) && FEQ (r1.z, d.z), "v * M == M.multVecMatrix(v)");
    VF_END ();
}
void h_rel_vecmat33 (void)
{
    IN_M (3, m, in_m); VF_IN_ARR (float, in_v, 2); V2 v = { in_v[0], in_v[1] };
    V2 r1 = G_v2m33 (&v, &m); V2 c = v; G_v2m33eq (&c, &m); V2 d; memset (&d, 0, sizeof d); G_mvm33 (&m, &v, &d);
    VF_ASSERT (FEQ (r1.x, c.x) && FEQ (r1.y, c.y), "v * M == (v *= M) (Vec2 x Matrix33)");
    VF_ASSERT (FEQ (r1.x, d.x) && FEQ (r1.y, d.y), "v * M == M.multVecMatrix(v) (Vec2 x Matrix33)");
    VF_END ();
}
void h_rel_cross_dot (void)
{
    VF_IN_ARR (float, in_a, 3); VF_IN_ARR (float, in_b, 3); V3 a = { in_a[0], in_a[1], in_a[2] }, b = { in_b[0], in_b[1], in_b[2] };
    V3 r1 = G_cross3 (&a, &b), r2 = G_crossop3 (&a, &b); V3 c = a; G_crosseq3 (&c, &b);
    VF_ASSERT (FEQ (r1.x, r2.x) && FEQ (r1.y, r2.y) && FEQ (r1.z, r2.z), "cross() == operator%");
    VF_ASSERT (FEQ (r1.x, c.x) && FEQ (r1.y, c.y) && FEQ (r1.z, c.z), "cross() == operator%=");
    float d1 = G_dot3 (&a, &b), d2 = G_dotop3 (&a, &b);
    VF_ASSERT (FEQ (d1, d2), "dot() == operator^");
    V2 p = { in_a[0], in_a[1] }, q = { in_b[0], in_b[1] };
    float c1 = G_cross2 (&p, &q), c2 = G_crossop2 (&p, &q);
    VF_ASSERT (FEQ (c1, c2), "2-D cross() == operator%");
    VF_END ();
}
void h_rel_quat (void)
{
    VF_IN_ARR (float, in_a, 4); VF_IN_ARR (float, in_b, 4);
    QF a; a.r = in_a[0]; a.v.x = in_a[1]; a.v.y = in_a[2]; a.v.z = in_a[3]; QF b; b.r = in_b[0]; b.v.x = in_b[1]; b.v.y = in_b[2]; b.v.z = in_b[3];
    QF r = G_qmul (&a, &b); QF c = a; G_qmuleq (&c, &b);
    VF_ASSERT (FEQ (r.r, c.r) && FEQ (r.v.x, c.v.x) && FEQ (r.v.y, c.v.y) && FEQ (r.v.z, c.v.z), "q1 * q2 == (q1 *= q2)");
    VF_END ();
}
