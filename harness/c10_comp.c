/* C10, the interpolation family (ImathQuat.h), T = float, arithmetic and libm uninterpreted (mode ABS):
 * each function is the documented composition of the library's own operations (Watt & Watt p. 366; Shoemake's squad):
 *   slerpShortestArc(q1,q2,t) = slerp(q1, (q1^q2) >= 0 ? q2 : -q2, t)          - never the long way round
 *   squad(q1,qa,qb,q2,t)      = slerp(slerp(q1,q2,t), slerp(qa,qb,t), 2t(1-t))
 *   intermediate(q0,q1,q2)    = normalized(q1 * exp(-1/4 (log(q1^-1 q0) + log(q1^-1 q2))))  - operand order matters: quaternions do not commute
 *   spline(q0,q1,q2,q3,t)     = squad(q1, intermediate(q0,q1,q2), intermediate(q1,q2,q3), q2, t)
 * The compositions call the real extracted functions; only the composition structure is decided here. */
#include "vf.h"
#include "c04_spec.h"
#include "c10f_names.h"
#if defined(VF_NATIVE)
#include "c10fx.fwd.c"
typedef struct Quat_float Q;
#elif defined(C10_MODULAR)
/* spline is checked against its callees' interfaces, not their bodies: intermediate and squad are pure functions of their arguments
 * (4 uninterpreted functions each); what they compute is the business of c10.comp.intermediate / c10.comp.squad */
#include "c10fs.h"
typedef struct Quat_float Q;
#define QARGS(q) (q)->r, (q)->v.x, (q)->v.y, (q)->v.z
#define F12 float, float, float, float, float, float, float, float, float, float, float, float
float __CPROVER_uninterpreted_c10im0 (F12); float __CPROVER_uninterpreted_c10im1 (F12); float __CPROVER_uninterpreted_c10im2 (F12); float __CPROVER_uninterpreted_c10im3 (F12);
float __CPROVER_uninterpreted_c10sq0 (F12, float, float, float, float, float); float __CPROVER_uninterpreted_c10sq1 (F12, float, float, float, float, float);
float __CPROVER_uninterpreted_c10sq2 (F12, float, float, float, float, float); float __CPROVER_uninterpreted_c10sq3 (F12, float, float, float, float, float);
Q cxx2c_c10_intermediate (Q *a, Q *b, Q *c)
{
    Q r; memset (&r, 0, sizeof r);
    r.r = __CPROVER_uninterpreted_c10im0 (QARGS (a), QARGS (b), QARGS (c)); r.v.x = __CPROVER_uninterpreted_c10im1 (QARGS (a), QARGS (b), QARGS (c));
    r.v.y = __CPROVER_uninterpreted_c10im2 (QARGS (a), QARGS (b), QARGS (c)); r.v.z = __CPROVER_uninterpreted_c10im3 (QARGS (a), QARGS (b), QARGS (c));
    return r;
}
Q cxx2c_c10_squad (Q *a, Q *b, Q *c, Q *d, float t)
{
    Q r; memset (&r, 0, sizeof r);
    r.r = __CPROVER_uninterpreted_c10sq0 (QARGS (a), QARGS (b), QARGS (c), QARGS (d), t); r.v.x = __CPROVER_uninterpreted_c10sq1 (QARGS (a), QARGS (b), QARGS (c), QARGS (d), t);
    r.v.y = __CPROVER_uninterpreted_c10sq2 (QARGS (a), QARGS (b), QARGS (c), QARGS (d), t); r.v.z = __CPROVER_uninterpreted_c10sq3 (QARGS (a), QARGS (b), QARGS (c), QARGS (d), t);
    return r;
}
#include "c10fs.c"
#undef F_intermediate
#undef F_squad
#define F_intermediate cxx2c_c10_intermediate
#define F_squad cxx2c_c10_squad
#else
#include "c10fx.c"
typedef struct Quat_float Q;
#endif
#define QEQ(a, b) (FEQ ((a).r, (b).r) && FEQ ((a).v.x, (b).v.x) && FEQ ((a).v.y, (b).v.y) && FEQ ((a).v.z, (b).v.z))
#define IN_Q(q, in) VF_IN_ARR (float, in, 4); Q q; memset (&q, 0, sizeof q); q.r = in[0]; q.v.x = in[1]; q.v.y = in[2]; q.v.z = in[3]
static Q spec_intermediate (Q *q0, Q *q1, Q *q2)
{
    Q q1inv = F_inverse (q1);
    Q c1 = F_qmul (&q1inv, q2);
    Q c2 = F_qmul (&q1inv, q0);
    Q l2 = F_log (&c2), l1 = F_log (&c1);
    Q s = F_qadd (&l2, &l1);
    Q c3 = F_smul ((float) -0.25, &s);
    Q e = F_exp (&c3);
    Q qa = F_qmul (q1, &e);
    F_normalize (&qa);
    return qa;
}
static Q spec_squad (Q *q1, Q *qa, Q *qb, Q *q2, float t)
{
    Q r1 = F_slerp (q1, q2, t), r2 = F_slerp (qa, qb, t);
    return F_slerp (&r1, &r2, IM_MUL (float, IM_MUL (float, (float) 2, t), IM_SUB (float, (float) 1, t)));
}
void h_comp_shortestArc (void)
{
    IN_Q (q1, in_q1); IN_Q (q2, in_q2); VF_IN (float, in_t);
    Q r = F_slerpShortestArc (&q1, &q2, in_t);
    Q n2 = F_qneg (&q2);
    Q e = (F_qdot (&q1, &q2) >= 0) ? F_slerp (&q1, &q2, in_t) : F_slerp (&q1, &n2, in_t);
    VF_ASSERT (QEQ (r, e), "slerpShortestArc interpolates towards the representative of q2 with non-negative dot product");
    VF_END ();
}
void h_comp_squad (void)
{
    IN_Q (q1, in_q1); IN_Q (qa, in_qa); IN_Q (qb, in_qb); IN_Q (q2, in_q2); VF_IN (float, in_t);
    Q r = F_squad (&q1, &qa, &qb, &q2, in_t);
    Q e = spec_squad (&q1, &qa, &qb, &q2, in_t);
    VF_ASSERT (QEQ (r, e), "squad = slerp(slerp(q1,q2,t), slerp(qa,qb,t), 2t(1-t))");
    VF_END ();
}
void h_comp_intermediate (void)
{
    IN_Q (q0, in_q0); IN_Q (q1, in_q1); IN_Q (q2, in_q2);
    Q r = F_intermediate (&q0, &q1, &q2);
    Q e = spec_intermediate (&q0, &q1, &q2);
    VF_ASSERT (QEQ (r, e), "intermediate = normalized(q1 * exp(-1/4 (log(q1^-1 q0) + log(q1^-1 q2))))");
    VF_END ();
}
void h_comp_spline (void)
{
    IN_Q (q0, in_q0); IN_Q (q1, in_q1); IN_Q (q2, in_q2); IN_Q (q3, in_q3); VF_IN (float, in_t);
    Q r = F_spline (&q0, &q1, &q2, &q3, in_t);
    Q qa = F_intermediate (&q0, &q1, &q2), qb = F_intermediate (&q1, &q2, &q3);
    Q e = F_squad (&q1, &qa, &qb, &q2, in_t);
    VF_ASSERT (QEQ (r, e), "spline = squad(q1, intermediate(q0,q1,q2), intermediate(q1,q2,q3), q2, t)");
    VF_END ();
}
