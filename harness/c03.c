/* C03: class half - conversions through the C functions, compound arithmetic, unary minus,
 * classification, round(n), numeric_limits.  Extracted from half.h / halfLimits.h (route B);
 * F_* aliases are generated (c03_names.h). */
#include "vf.h"
#include "spec_half.h"
#include "c03_names.h"
#ifdef VF_NATIVE
#include "c03x.fwd.c"
#else
#include "c03x.c"
#endif
#include <math.h>
#include "c03_macros.h" /* HALF_* macros exactly as the preprocessor sees them in the real half.h (gcc -E -dM, generated) */
typedef struct half H;

/* ---- the two C conversion functions as seen through the C++ inclusion of half.h: same contracts as C01 ---- */
#define F2H_POST(r, f) ((r) == spec_f2h (vf_f2u (f)))
#define H2F_POST(r, h) (vf_f2u (r) == spec_h2f (h))
unsigned short F_f2h (float f) __CPROVER_assigns () __CPROVER_ensures (F2H_POST (__CPROVER_return_value, f));
float F_h2f (unsigned short h) __CPROVER_assigns () __CPROVER_ensures (H2F_POST (__CPROVER_return_value, h));

/* ---- constructor and cast forward to them ---- */
void F_ctor (H *this_, float f) __CPROVER_requires (__CPROVER_rw_ok (this_, sizeof (*this_))) __CPROVER_assigns (this_->_h)
    __CPROVER_ensures (F2H_POST (this_->_h, f));
float F_cast (H *this_) __CPROVER_requires (__CPROVER_r_ok (this_, sizeof (*this_))) __CPROVER_assigns ()
    __CPROVER_ensures (H2F_POST (__CPROVER_return_value, this_->_h));

/* ---- compound arithmetic: convert to float, operate once in float, convert back ---- */
#define HV(h) vf_u2f (spec_h2f (h))
#define H_OP(a, op, bf) spec_f2h (vf_f2u (op (float, HV (a), (bf))))
#define DECL_OP(name, op)                                                                                              \
    H *F_##name##_h (H *this_, H h) __CPROVER_requires (__CPROVER_rw_ok (this_, sizeof (*this_))) __CPROVER_assigns (this_->_h) \
        __CPROVER_ensures (this_->_h == H_OP (__CPROVER_old (this_->_h), op, HV (h._h))) __CPROVER_ensures (__CPROVER_return_value == this_); \
    H *F_##name##_f (H *this_, float f) __CPROVER_requires (__CPROVER_rw_ok (this_, sizeof (*this_))) __CPROVER_assigns (this_->_h) \
        __CPROVER_ensures (this_->_h == H_OP (__CPROVER_old (this_->_h), op, f)) __CPROVER_ensures (__CPROVER_return_value == this_);
DECL_OP (addeq, IM_ADD)
DECL_OP (subeq, IM_SUB)
DECL_OP (muleq, IM_MUL)
DECL_OP (diveq, IM_DIV)
H F_neg (H *this_) __CPROVER_requires (__CPROVER_r_ok (this_, sizeof (*this_))) __CPROVER_assigns ()
    __CPROVER_ensures (__CPROVER_return_value._h == (this_->_h ^ 0x8000));

/* ---- classification ---- */
#define DECL_CLS(name, expr) _Bool F_##name (H *this_) __CPROVER_requires (__CPROVER_r_ok (this_, sizeof (*this_))) __CPROVER_assigns () \
    __CPROVER_ensures (__CPROVER_return_value == (expr));
DECL_CLS (isZero, spec_half_class (this_->_h) == SPEC_HC_ZERO)
DECL_CLS (isNormalized, spec_half_class (this_->_h) == SPEC_HC_NORMAL)
DECL_CLS (isDenormalized, spec_half_class (this_->_h) == SPEC_HC_DENORM)
DECL_CLS (isInfinity, spec_half_class (this_->_h) == SPEC_HC_INF)
DECL_CLS (isNan, spec_half_class (this_->_h) == SPEC_HC_NAN)
DECL_CLS (isFinite, spec_half_class (this_->_h) != SPEC_HC_INF && spec_half_class (this_->_h) != SPEC_HC_NAN)
DECL_CLS (isNegative, (this_->_h >> 15) == 1)

/* ---- round(n) ---- */
#define MAG(h) ((unsigned) ((h) & 0x7fff))
#define ROUND_UNCHANGED(r, h, n) (!((n) >= 10) || (r) == (h))
#define ROUND_SIGN(r, h) ((((r) ^ (h)) & 0x8000) == 0)
#define ROUND_CLASS(r, h) ((MAG (h) < 0x7c00 ? MAG (r) < 0x7c00 : 1) && (MAG (h) == 0x7c00 ? MAG (r) == 0x7c00 : 1))
#define ROUND_LOWBITS(r, n) (!((n) < 10) || (MAG (r) & ((1u << (10 - (n))) - 1u)) == 0)
/* nearest multiple of 2^(10-n) of the magnitude pattern (within half a unit), except that where rounding up
 * would reach the infinity pattern the value is truncated instead */
#define ROUND_UP(h, n) (((MAG (h) + (1u << (9 - (n)))) >> (10 - (n))) << (10 - (n)))
#define ROUND_NEAR(r, h, n) (!((n) < 10 && MAG (h) <= 0x7c00) || \
    (ROUND_UP (h, n) >= 0x7c00 && MAG (h) < 0x7c00 ? MAG (r) == ((MAG (h) >> (10 - (n))) << (10 - (n))) \
     : ((MAG (r) >= MAG (h) ? MAG (r) - MAG (h) : MAG (h) - MAG (r)) <= (1u << (9 - (n))))))
H F_round (H *this_, unsigned int n) __CPROVER_requires (__CPROVER_r_ok (this_, sizeof (*this_)) && MAG (this_->_h) <= 0x7c00) __CPROVER_assigns ()
    __CPROVER_ensures (ROUND_UNCHANGED (__CPROVER_return_value._h, this_->_h, n))
    __CPROVER_ensures (ROUND_SIGN (__CPROVER_return_value._h, this_->_h))
    __CPROVER_ensures (ROUND_CLASS (__CPROVER_return_value._h, this_->_h))
    __CPROVER_ensures (ROUND_LOWBITS (__CPROVER_return_value._h, n))
    __CPROVER_ensures (ROUND_NEAR (__CPROVER_return_value._h, this_->_h, n));

/* ------------------------------------------------------------------ harnesses */
void h_f2h (void) { VF_IN (uint32_t, in_fbits); float f = vf_u2f (in_fbits); unsigned short r = F_f2h (f); VF_POST (F2H_POST (r, f), "C++ inclusion: imath_float_to_half == RNE spec"); (void) r; VF_END (); }
void h_h2f (void) { VF_IN (uint16_t, in_h); float r = F_h2f (in_h); VF_POST (H2F_POST (r, in_h), "C++ inclusion: imath_half_to_float == binary16 value"); (void) r; VF_END (); }
void h_ctor (void) { VF_IN (uint32_t, in_fbits); VF_IN (uint16_t, in_old); H a; a._h = in_old; float f = vf_u2f (in_fbits); F_ctor (&a, f); VF_POST (F2H_POST (a._h, f), "half(float) stores the RNE conversion"); VF_END (); }
void h_cast (void) { VF_IN (uint16_t, in_h); H a; a._h = in_h; float r = F_cast (&a); VF_POST (H2F_POST (r, in_h), "operator float() is the binary16 value"); (void) r; VF_END (); }
/* lemma over the constructor and cast contracts: half -> float -> half through the C++ members */
void h_roundtrip_members (void)
{
    VF_IN (uint16_t, in_h);
    VF_ASSUME (spec_half_class (in_h) != SPEC_HC_NAN);
    H a, b; a._h = in_h; b._h = 0;
    float f = F_cast (&a);
    F_ctor (&b, f);
    VF_ASSERT (b._h == in_h, "half(float(h)) == h for every non-NaN h");
    VF_END ();
}
#define H_OPH(name, op)                                                                                                  \
    void h_##name##_h (void) { VF_IN (uint16_t, in_a); VF_IN (uint16_t, in_b); H a, b; a._h = in_a; b._h = in_b;         \
        H *r = F_##name##_h (&a, b); (void) r; VF_POST (a._h == H_OP (in_a, op, HV (in_b)), #name " (half): convert, operate once in float, convert back"); VF_END (); } \
    void h_##name##_f (void) { VF_IN (uint16_t, in_a); VF_IN (uint32_t, in_fbits); H a; a._h = in_a; float f = vf_u2f (in_fbits); \
        H *r = F_##name##_f (&a, f); (void) r; VF_POST (a._h == H_OP (in_a, op, f), #name " (float): convert, operate once in float, convert back"); VF_END (); }
H_OPH (addeq, IM_ADD)
H_OPH (subeq, IM_SUB)
H_OPH (muleq, IM_MUL)
H_OPH (diveq, IM_DIV)
void h_neg (void) { VF_IN (uint16_t, in_a); H a; a._h = in_a; H r = F_neg (&a); VF_POST (r._h == (in_a ^ 0x8000), "unary minus flips only the sign bit"); (void) r; VF_END (); }
#define H_CLS(name, expr) void h_##name (void) { VF_IN (uint16_t, in_a); H a; a._h = in_a; _Bool r = F_##name (&a); VF_POST (r == (expr), #name); (void) r; VF_END (); }
H_CLS (isZero, spec_half_class (in_a) == SPEC_HC_ZERO)
H_CLS (isNormalized, spec_half_class (in_a) == SPEC_HC_NORMAL)
H_CLS (isDenormalized, spec_half_class (in_a) == SPEC_HC_DENORM)
H_CLS (isInfinity, spec_half_class (in_a) == SPEC_HC_INF)
H_CLS (isNan, spec_half_class (in_a) == SPEC_HC_NAN)
H_CLS (isFinite, spec_half_class (in_a) != SPEC_HC_INF && spec_half_class (in_a) != SPEC_HC_NAN)
H_CLS (isNegative, (in_a >> 15) == 1)
/* lemma over the predicate contracts: exactly one class; agreement with the float class of the value */
void h_lemma_classes (void)
{
    VF_IN (uint16_t, in_a);
    H a; a._h = in_a;
    int n = F_isZero (&a) + F_isNormalized (&a) + F_isDenormalized (&a) + F_isInfinity (&a) + F_isNan (&a);
    VF_ASSERT (n == 1, "exactly one of zero/normalized/denormalized/infinity/NaN");
    VF_ASSERT (F_isFinite (&a) == !(F_isInfinity (&a) || F_isNan (&a)), "isFinite == !(inf || nan)");
    float v = F_cast (&a);
    VF_ASSERT (F_isNan (&a) == (v != v), "isNan agrees with the float value");
    VF_ASSERT (F_isInfinity (&a) == (v == INFINITY || v == -INFINITY), "isInfinity agrees with the float value");
    VF_ASSERT (F_isZero (&a) == (v == 0.0f), "isZero agrees with the float value");
    VF_ASSERT (F_isNan (&a) || F_isNegative (&a) == (signbit (v) != 0), "isNegative agrees with the sign of the float value");
    float av = v < 0 ? -v : v;
    VF_ASSERT (F_isNormalized (&a) == (av >= 0x1p-14f && av <= 65504.0f), "normalized halves are exactly the values in [2^-14, 65504]");
    VF_ASSERT (F_isDenormalized (&a) == (av > 0.0f && av < 0x1p-14f), "denormalized halves are exactly the non-zero values below 2^-14");
    VF_END ();
}
void h_round (void)
{
    VF_IN (uint16_t, in_a); VF_IN (unsigned, in_n);
    VF_ASSUME (MAG (in_a) <= 0x7c00);
    H a; a._h = in_a;
    H r = F_round (&a, in_n);
    VF_POST (ROUND_UNCHANGED (r._h, in_a, in_n), "round(n>=10) unchanged");
    VF_POST (ROUND_SIGN (r._h, in_a), "round keeps the sign");
    VF_POST (ROUND_CLASS (r._h, in_a), "round keeps finite finite and infinite infinite");
    VF_POST (ROUND_LOWBITS (r._h, in_n), "round clears the low 10-n significand bits");
    VF_POST (ROUND_NEAR (r._h, in_a, in_n), "round within half a unit of n-bit precision, truncating only at the overflow edge");
    (void) r; VF_END ();
}
/* ---- numeric_limits<half> and HALF_* against the conversions' contracts ---- */
void h_limits (void)
{
    VF_ASSERT (F_lim_max ()._h == 0x7bff, "max() is the largest finite pattern");
    VF_ASSERT (F_lim_min ()._h == 0x0400, "min() is the smallest normal pattern");
    VF_ASSERT (F_lim_lowest ()._h == 0xfbff, "lowest() is -max()");
    VF_ASSERT (F_lim_denorm_min ()._h == 0x0001, "denorm_min() is the smallest subnormal pattern");
    VF_ASSERT (F_lim_infinity ()._h == 0x7c00, "infinity()");
    VF_ASSERT (F_lim_epsilon ()._h == 0x1400, "epsilon() is 2^-10");
    VF_ASSERT (spec_half_class (F_lim_qnan ()._h) == SPEC_HC_NAN && spec_half_class (F_lim_snan ()._h) == SPEC_HC_NAN, "quiet_NaN / signaling_NaN are NaNs");
    /* the HALF_* macros are those same values, and the conversion realises them */
    VF_ASSERT (HV (0x7bff) == (float) HALF_MAX && spec_f2h (vf_f2u ((float) HALF_MAX)) == 0x7bff, "HALF_MAX");
    VF_ASSERT (HV (0x0400) == (float) HALF_MIN && HV (0x0400) == (float) HALF_NRM_MIN, "HALF_MIN / HALF_NRM_MIN");
    VF_ASSERT (HV (0x0001) == (float) HALF_DENORM_MIN, "HALF_DENORM_MIN");
    /* gap above 1.0 */
    VF_ASSERT (HV (0x3c01) - HV (0x3c00) == HV (0x1400), "epsilon is the gap between 1.0 and the next half");
    VF_ASSERT (spec_f2h (vf_f2u ((float) HALF_EPSILON)) == 0x1400, "HALF_EPSILON converts to epsilon()");
    /* digit counts: 11 significand bits; 10^3 < 2^10 and 2^11 < 10^4 */
    VF_ASSERT (HALF_MANT_DIG == 11 && HALF_DIG == 3 && HALF_DECIMAL_DIG == 5 && 1000 < 1024 && 2048 < 10000, "digit counts");
    VF_END ();
}
/* lemma: max() really is the extreme - every finite half value is <= h2f(max), and f2h maps anything larger but < 65520 back to max */
void h_lemma_extremes (void)
{
    VF_IN (uint16_t, in_a);
    VF_ASSUME (MAG (in_a) < 0x7c00);
    float v = HV (in_a), mx = HV (0x7bff);
    VF_ASSERT (v <= mx && v >= -mx, "no finite half exceeds max()");
    VF_ASSERT (MAG (in_a) == 0 || (v >= HV (0x0001) || v <= -HV (0x0001)), "no non-zero half is smaller than denorm_min()");
    VF_ASSERT (!(MAG (in_a) >= 0x0400) || (v >= HV (0x0400) || v <= -HV (0x0400)), "no normal half is smaller than min()");
    VF_END ();
}
