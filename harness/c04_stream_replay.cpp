// Native replay of the stream-output obligations against the REAL operator<< and a real std::ostringstream:
// tokenising the printed text must give exactly one token per component, equal to the component's own printed form.
// Build: -DVF_TYPE='Shear6<float>' -DVF_ELEM=float -DVF_N=6 ; arguments in_a<i>=<binary digits>.
#include "ImathVec.h"
#include "ImathColor.h"
#include "ImathShear.h"
#include "ImathQuat.h"
#include "ImathMatrix.h"
#include <sstream>
#include <string>
#include <vector>
#include <cstring>
#include <cstdio>
#include <cstdint>
using namespace IMATH_INTERNAL_NAMESPACE;
static bool get (int argc, char **argv, int i, VF_ELEM &out)
{
    std::string k = "in_a" + std::to_string (i) + "=";
    for (int a = 1; a < argc; a++)
    {
        std::string s (argv[a]);
        if (s.rfind (k, 0) == 0)
        {
            uint64_t v = 0;
            for (size_t c = k.size (); c < s.size (); c++) v = (v << 1) | (s[c] == '1');
            std::memcpy (&out, &v, sizeof (VF_ELEM));
            return true;
        }
    }
    return false;
}
int main (int argc, char **argv)
{
    VF_TYPE obj;
    VF_ELEM *p = reinterpret_cast<VF_ELEM *> (&obj);
    for (int i = 0; i < VF_N; i++) { VF_ELEM e = VF_ELEM (i + 1); get (argc, argv, i, e); if (!(e == e)) e = VF_ELEM (i + 1); p[i] = e; }
    std::ostringstream os;
    os << obj;
    std::string text = os.str ();
    size_t a = text.find ('('), b = text.rfind (')');
    if (a == std::string::npos || b == std::string::npos || b < a) { printf ("REPRODUCED on real code: no pair of parentheses in '%s'\n", text.c_str ()); return 1; }
    std::istringstream in (text.substr (a + 1, b - a - 1));
    std::vector<std::string> toks; std::string t;
    while (in >> t) toks.push_back (t);
    if ((int) toks.size () != VF_N) { printf ("REPRODUCED on real code: %d tokens for %d components in '%s'\n", (int) toks.size (), VF_N, text.c_str ()); return 1; }
    printf ("not reproduced: %d tokens\n", (int) toks.size ());
    return 0;
}
