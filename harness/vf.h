/* Harness conventions shared by the CBMC run and the native replay.
 *
 *  - every harness input is a scalar (or array of scalars) named in_*, declared
 *    with VF_IN / VF_IN_ARR; under CBMC it is nondeterministic, natively it is
 *    loaded from "name=<binary digits>" command-line arguments (the values the
 *    verifier's counterexample assigned);
 *  - VF_ASSUME restricts inputs; VF_ASSERT states a lemma; VF_POST states, for
 *    the native replay only, the postcondition that --enforce-contract checks
 *    under CBMC (so a failed postcondition can be re-evaluated on the real code);
 *  - VF_END() ends every harness with the canary: an assertion that must FAIL,
 *    proving the path through all assumptions / requires is satisfiable.
 */
#ifndef VF_H
#define VF_H
#include <stdint.h>
#include <string.h>

#ifdef VF_NATIVE
#include <stdio.h>
#include <stdlib.h>
static int    vf_argc;
static char** vf_argv;
static int    vf_fail;
static void vf_load_t (const char* type, const char* name, void* dst, size_t size);
#define vf_load(name, dst, size) vf_load_t ("?", name, dst, size)
static void vf_load_t (const char* type, const char* name, void* dst, size_t size)
{
    size_t nl = strlen (name);
    if (vf_argc > 1 && strcmp (vf_argv[1], "--types") == 0) { printf ("VF_TYPE %s %s %d\n", name, type, (int) size); memset (dst, 0, size); return; }
    for (int i = 1; i < vf_argc; i++)
    {
        if (strncmp (vf_argv[i], name, nl) == 0 && vf_argv[i][nl] == '=')
        {
            const char* s = vf_argv[i] + nl + 1;
            size_t      n = strlen (s);
            unsigned long long v = 0;
            if (n == 1 && size == 1 && (s[0]=='0'||s[0]=='1')) { *(unsigned char*)dst = (unsigned char)(s[0]-'0'); return; }
            for (size_t k = 0; k < n; k++) v = (v << 1) | (unsigned long long) (s[k] == '1');
            memset (dst, 0, size);
            memcpy (dst, &v, size < 8 ? size : 8);
            return;
        }
    }
    memset (dst, 0, size);
    printf ("note: input %s not in counterexample, using 0\n", name);
}
#define VF_IN(T, name)  T name; vf_load_t (#T, #name, &name, sizeof (name))
#define VF_IN_ARR(T, name, n)                                                  \
    T name[n];                                                                 \
    for (int vf_i = 0; vf_i < (n); vf_i++)                                     \
    {                                                                          \
        char vf_b[64];                                                         \
        snprintf (vf_b, sizeof vf_b, "%s[%d]", #name, vf_i);                   \
        vf_load_t (#T, vf_b, &name[vf_i], sizeof (name[0]));                   \
    }
#define VF_ASSUME(c)                                                           \
    do { if (!(c)) { printf ("input outside the harness assumptions: %s\n", #c); exit (3); } } while (0)
#define VF_ASSERT(c, msg)                                                      \
    do { if (!(c)) { printf ("REPRODUCED on real code: %s\n", msg); vf_fail = 1; } } while (0)
#define VF_POST(c, msg) VF_ASSERT (c, msg)
#define VF_END() do { } while (0)
#define VF_CONTRACT(...)
/* contract clauses vanish natively: the re-declarations become plain prototypes */
#define __CPROVER_requires(...)
#define __CPROVER_ensures(...)
#define __CPROVER_assigns(...)
void VF_ENTRY (void);
int main (int argc, char** argv)
{
    vf_argc = argc; vf_argv = argv;
    VF_ENTRY ();
    if (!vf_fail) printf ("not reproduced: real code satisfies the oracle on this input\n");
    return vf_fail ? 1 : 0;
}
#else
/* inputs are nondeterministic but well-typed: an uninitialised _Bool may hold any byte under CBMC, a real one holds 0 or 1 */
#define VF_WELLTYPED(x) __CPROVER_assume (_Generic ((x), _Bool : *(unsigned char *) &(x) <= 1, default : 1))
#define VF_IN(T, name)  T name; VF_WELLTYPED (name)
#define VF_IN_ARR(T, name, n) T name[n]; for (int vf_i = 0; vf_i < _Generic ((name[0]), _Bool : (n), default : 0); vf_i++) VF_WELLTYPED (name[vf_i])
#define VF_ASSUME(c) __CPROVER_assume (c)
#define VF_ASSERT(c, msg) __CPROVER_assert (c, msg)
#define VF_POST(c, msg) do { } while (0)
#define VF_END() __CPROVER_assert (0, "VF_CANARY end of harness reachable")
#define VF_CONTRACT(...) __VA_ARGS__
#endif

typedef union { uint32_t u; float f; } vf_uf_t;
typedef union { uint64_t u; double f; } vf_ud_t;
static inline uint32_t vf_f2u (float f) { vf_uf_t x; x.f = f; return x.u; }
static inline float    vf_u2f (uint32_t u) { vf_uf_t x; x.u = u; return x.f; }
static inline uint64_t vf_d2u (double f) { vf_ud_t x; x.f = f; return x.u; }
static inline double   vf_u2d (uint64_t u) { vf_ud_t x; x.u = u; return x.f; }

#endif
