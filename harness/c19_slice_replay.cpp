// Native replay for c19.slice.* against the REAL PyImathFixedArray.h with a REAL CPython object as the index
// (linked with boost.python / libpython).  Arguments: name=binary as produced by the check.  The oracle is an equivalent Python list.
#include <Python.h>
#include "PyImathFixedArray.h"
#include <cstdio>
#include <cstring>
#include <string>
#include <vector>
using namespace PyImath;
namespace PyImath { template <> int FixedArrayDefaultValue<int>::value () { return 0; } }
#ifndef NB
#define NB 6
#endif
static int g_argc; static char **g_argv;
static bool has (const char *name) { std::string k = std::string (name) + "="; for (int i = 1; i < g_argc; i++) if (std::string (g_argv[i]).rfind (k, 0) == 0) return true; return false; }
static long long val (const char *name)
{
    std::string k = std::string (name) + "=";
    for (int i = 1; i < g_argc; i++)
    {
        std::string s (g_argv[i]);
        if (s.rfind (k, 0) == 0) { std::string b = s.substr (k.size ()); unsigned long long v = 0; for (char c : b) v = (v << 1) | (c == '1'); if (b.size () == 32) return (int) (unsigned) v; return (long long) v; }
    }
    return 0;
}
int main (int argc, char **argv)
{
    g_argc = argc; g_argv = argv;
    if (argc > 1 && !strcmp (argv[1], "--types")) return 0;
    Py_Initialize ();
    long len = (long) (val ("in_len") % (NB + 1)); if (len < 0) len = -len;
    bool masked = val ("in_masked") != 0, writable = val ("in_writable") != 0, is_slice = val ("in_is_slice") != 0, is_int = val ("in_is_int") != 0;
    if (!has ("in_len")) { len = 1; is_slice = true; }
    // the array: plain [10,11,...] of length len, or a masked reference selecting len elements of a 6-element base
    FixedArray<int> base (masked ? NB : len), mask (masked ? NB : len);
    std::vector<int> list;
    for (long i = 0; i < (masked ? NB : len); i++) base[i] = 10 + (int) i;
    for (long i = 0; i < (masked ? NB : len); i++) mask[i] = 0;
    // the masked reference selects the positions the counterexample's index table names (a real mask yields them in increasing order)
    if (masked) { int cnt = 0; for (long k = 0; k < len; k++) { char nm[32]; snprintf (nm, sizeof nm, "in_idx[%ld]", k); long p = (long) (val (nm) % NB); if (!mask[p]) { mask[p] = 1; cnt++; } }
                  for (int p = 0; p < NB && cnt < len; p++) if (!mask[p]) { mask[p] = 1; cnt++; } }
    FixedArray<int> view (base, mask);
    FixedArray<int> &a = masked ? view : base;
    if (masked) { for (int p = 0; p < NB; p++) if (mask[p]) list.push_back (10 + p); } else for (long i = 0; i < len; i++) list.push_back (10 + (int) i);
    if (!writable) a.makeReadOnly ();
    PyObject *idx = 0;
    if (is_slice) { PyObject *s = PyLong_FromLongLong (val ("in_s")), *e = PyLong_FromLongLong (val ("in_e")), *st = PyLong_FromLongLong (val ("in_step") ? val ("in_step") : -1); idx = PySlice_New (s, e, st); }
    else if (is_int) idx = PyLong_FromLongLong (val ("in_int"));
    else idx = PyUnicode_FromString ("x");
    // oracle: the same index applied to the equivalent Python list
    PyObject *pl = PyList_New (len);
    for (long i = 0; i < len; i++) PyList_SetItem (pl, i, PyLong_FromLong (list[i]));
    PyObject *want = PyObject_GetItem (pl, idx);
    bool list_raises = want == 0; PyErr_Clear ();
    int fail = 0;
    const char *which = VF_WHICH;
    if (!strcmp (which, "getslice"))
    {
        bool raised = false; FixedArray<int> r (0);
        try { r = a.getslice (idx); } catch (...) { raised = true; PyErr_Clear (); }
        if (raised != list_raises) { printf ("REPRODUCED on real code: getslice %s where the equivalent Python list %s (len %ld)\n", raised ? "raises" : "returns", list_raises ? "raises" : "returns", len); fail = 1; }
        else if (!raised)
        {
            std::vector<long> w;
            if (PyList_Check (want)) for (Py_ssize_t i = 0; i < PyList_Size (want); i++) w.push_back (PyLong_AsLong (PyList_GetItem (want, i))); else w.push_back (PyLong_AsLong (want));
            if ((size_t) r.len () != w.size ()) { printf ("REPRODUCED on real code: getslice length %ld, Python list %zu\n", (long) r.len (), w.size ()); fail = 1; }
            else for (size_t i = 0; i < w.size (); i++) if (r[i] != w[i]) { printf ("REPRODUCED on real code: getslice element %zu is %d, Python list has %ld\n", i, r[i], w[i]); fail = 1; break; }
        }
    }
    else
    {
        int v = (int) val ("in_v"); bool raised = false;
        try { a.setitem_scalar (idx, v); } catch (...) { raised = true; PyErr_Clear (); }
        PyObject *pv = PyLong_FromLong (v);
        bool lr = list_raises;
        if (!writable) lr = true;
        if (!lr && is_slice) { Py_ssize_t s, e, st; PySlice_Unpack (idx, &s, &e, &st); Py_ssize_t n = PySlice_AdjustIndices (len, &s, &e, st); for (Py_ssize_t k = 0; k < n; k++) list[s + k * st] = v; }
        else if (!lr) { long i = (long) val ("in_int"); if (i < 0) i += len; list[i] = v; }
        (void) pv;
        if (raised != lr) { printf ("REPRODUCED on real code: setitem_scalar %s, expected %s\n", raised ? "raises" : "returns", (lr || !writable) ? "an exception" : "success"); fail = 1; }
        for (long i = 0; i < len && !fail; i++) { int got = masked ? view[i] : base[i]; int exp = list[i]; if (got != exp) { printf ("REPRODUCED on real code: after setitem_scalar element %ld is %d, Python list has %d\n", i, got, exp); fail = 1; } }
    }
    if (!fail) printf ("not reproduced\n");
    return fail;
}
