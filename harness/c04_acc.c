/* C04: accessors, raw pointers, converting constructors / setValue / getValue address one contiguous block of
 * exactly N elements in declaration order (matrices row-major), converting element types by component-wise cast.
 * Representative instantiations: Vec2/3/4<float>, Color4<float>, Shear6<float>, Quat<float>, Matrix33/44<float>,
 * conversions float <- double and float <- int. */
#include "vf.h"
#include "c04_spec.h"
#include "c04_acc_names.h"
#ifdef VF_NATIVE
#include "c04_accx.fwd.c"
#else
#include "c04_accx.c"
#endif
#define RD(p) __CPROVER_r_ok (p, sizeof (*(p)))
#define RW(p) __CPROVER_rw_ok (p, sizeof (*(p)))

/* operator[] / getValue: the i-th element is at (T*)this + i */
#define DECL_IDX(alias, S, N) \
    float *F_##alias##_idx (S *this_, int i) __CPROVER_requires (RD (this_) && 0 <= i && i < N) __CPROVER_assigns () __CPROVER_ensures (__CPROVER_return_value == (float *) this_ + i); \
    float *F_##alias##_idxc (S *this_, int i) __CPROVER_requires (RD (this_) && 0 <= i && i < N) __CPROVER_assigns () __CPROVER_ensures (__CPROVER_return_value == (float *) this_ + i);
#define DECL_GV(alias, S) \
    float *F_##alias##_gv (S *this_) __CPROVER_requires (RD (this_)) __CPROVER_assigns () __CPROVER_ensures (__CPROVER_return_value == (float *) this_);
DECL_IDX (v2, struct Vec2_float, 2)
DECL_IDX (v3, struct Vec3_float, 3)
DECL_IDX (v4, struct Vec4_float, 4)
DECL_IDX (c4, struct Color4_float, 4)
DECL_IDX (s6, struct Shear6_float, 6)
/* Quat: the const form returns the element by value */
float *F_q_idx (struct Quat_float *this_, int i) __CPROVER_requires (RD (this_) && 0 <= i && i < 4) __CPROVER_assigns () __CPROVER_ensures (__CPROVER_return_value == (float *) this_ + i);
float F_q_idxc (struct Quat_float *this_, int i) __CPROVER_requires (RD (this_) && 0 <= i && i < 4) __CPROVER_assigns () __CPROVER_ensures (FEQ (__CPROVER_return_value, ((float *) this_)[i]));
DECL_GV (v2, struct Vec2_float)
DECL_GV (v3, struct Vec3_float)
DECL_GV (v4, struct Vec4_float)
DECL_GV (m33, struct Matrix33_float)
DECL_GV (m44, struct Matrix44_float)
/* matrix row access: row i starts at (T*)this + i*n */
float *F_m33_idx (struct Matrix33_float *this_, int i) __CPROVER_requires (RD (this_) && 0 <= i && i < 3) __CPROVER_assigns () __CPROVER_ensures (__CPROVER_return_value == (float *) this_ + 3 * i);
float *F_m44_idx (struct Matrix44_float *this_, int i) __CPROVER_requires (RD (this_) && 0 <= i && i < 4) __CPROVER_assigns () __CPROVER_ensures (__CPROVER_return_value == (float *) this_ + 4 * i);

/* conversions: component-wise cast, every slot */
void F_v3_from_d (struct Vec3_float *this_, struct Vec3_double *v) __CPROVER_requires (RW (this_) && RD (v)) __CPROVER_assigns (*this_)
    __CPROVER_ensures (FEQ (this_->x, (float) v->x) && FEQ (this_->y, (float) v->y) && FEQ (this_->z, (float) v->z));
void F_v3_from_i (struct Vec3_float *this_, struct Vec3_int *v) __CPROVER_requires (RW (this_) && RD (v)) __CPROVER_assigns (*this_)
    __CPROVER_ensures (this_->x == (float) v->x && this_->y == (float) v->y && this_->z == (float) v->z);
void F_v3_set3 (struct Vec3_float *this_, double a, double b, double c) __CPROVER_requires (RW (this_)) __CPROVER_assigns (*this_)
    __CPROVER_ensures (FEQ (this_->x, (float) a) && FEQ (this_->y, (float) b) && FEQ (this_->z, (float) c));
void F_v3_setv (struct Vec3_float *this_, struct Vec3_double *v) __CPROVER_requires (RW (this_) && RD (v)) __CPROVER_assigns (*this_)
    __CPROVER_ensures (FEQ (this_->x, (float) v->x) && FEQ (this_->y, (float) v->y) && FEQ (this_->z, (float) v->z));
void F_v3_get3 (struct Vec3_float *this_, double *a, double *b, double *c) __CPROVER_requires (RD (this_) && __CPROVER_w_ok (a, 8) && __CPROVER_w_ok (b, 8) && __CPROVER_w_ok (c, 8)) __CPROVER_assigns (*a, *b, *c)
    __CPROVER_ensures (FEQ (*a, (double) this_->x) && FEQ (*b, (double) this_->y) && FEQ (*c, (double) this_->z));
void F_v3_getv (struct Vec3_float *this_, struct Vec3_double *v) __CPROVER_requires (RD (this_) && RW (v)) __CPROVER_assigns (*v)
    __CPROVER_ensures (FEQ (v->x, (double) this_->x) && FEQ (v->y, (double) this_->y) && FEQ (v->z, (double) this_->z));
static inline _Bool m33_is_cast (struct Matrix33_float m, struct Matrix33_double d) { for (int i = 0; i < 3; i++) for (int j = 0; j < 3; j++) if (!FEQ (m.x[i][j], (float) d.x[i][j])) return 0; return 1; }
static inline _Bool m33_is_castd (struct Matrix33_double d, struct Matrix33_float m) { for (int i = 0; i < 3; i++) for (int j = 0; j < 3; j++) if (!FEQ (d.x[i][j], (double) m.x[i][j])) return 0; return 1; }
void F_m33_from_d (struct Matrix33_float *this_, struct Matrix33_double *v) __CPROVER_requires (RW (this_) && RD (v)) __CPROVER_assigns (*this_) __CPROVER_ensures (m33_is_cast (*this_, *v));
struct Matrix33_float *F_m33_setv (struct Matrix33_float *this_, struct Matrix33_double *v) __CPROVER_requires (RW (this_) && RD (v)) __CPROVER_assigns (*this_) __CPROVER_ensures (m33_is_cast (*this_, *v)) __CPROVER_ensures (__CPROVER_return_value == this_);
void F_m33_getv (struct Matrix33_float *this_, struct Matrix33_double *v) __CPROVER_requires (RD (this_) && RW (v)) __CPROVER_assigns (*v) __CPROVER_ensures (m33_is_castd (*v, *this_));

/* ------------------------------------------------------------------ harnesses */
#define H_IDX(alias, S, N) \
    void h_##alias##_idx (void) { S a; VF_IN (int, in_i); VF_ASSUME (0 <= in_i && in_i < N); float *r = F_##alias##_idx (&a, in_i); VF_POST (r == (float *) &a + in_i, #alias " operator[] addresses element i of one contiguous block"); (void) r; VF_END (); } \
    void h_##alias##_idxc (void) { S a; VF_IN (int, in_i); VF_ASSUME (0 <= in_i && in_i < N); float *r = F_##alias##_idxc (&a, in_i); VF_POST (r == (float *) &a + in_i, #alias " const operator[]"); (void) r; VF_END (); }
#define H_GV(alias, S) void h_##alias##_gv (void) { S a; float *r = F_##alias##_gv (&a); VF_POST (r == (float *) &a, #alias " getValue() is the address of the object"); (void) r; VF_END (); }
H_IDX (v2, struct Vec2_float, 2)
H_IDX (v3, struct Vec3_float, 3)
H_IDX (v4, struct Vec4_float, 4)
H_IDX (c4, struct Color4_float, 4)
H_IDX (s6, struct Shear6_float, 6)
void h_q_idx (void) { struct Quat_float a; VF_IN (int, in_i); VF_ASSUME (0 <= in_i && in_i < 4); float *r = F_q_idx (&a, in_i); VF_POST (r == (float *) &a + in_i, "Quat operator[] addresses element i (r, v.x, v.y, v.z)"); (void) r; VF_END (); }
void h_q_idxc (void) { VF_IN_ARR (float, in_q, 4); struct Quat_float a; a.r = in_q[0]; a.v.x = in_q[1]; a.v.y = in_q[2]; a.v.z = in_q[3]; VF_IN (int, in_i); VF_ASSUME (0 <= in_i && in_i < 4); float r = F_q_idxc (&a, in_i); VF_POST (FEQ (r, in_q[in_i]), "Quat const operator[] returns element i"); (void) r; VF_END (); }
H_GV (v2, struct Vec2_float)
H_GV (v3, struct Vec3_float)
H_GV (v4, struct Vec4_float)
H_GV (m33, struct Matrix33_float)
H_GV (m44, struct Matrix44_float)
void h_m33_idx (void) { struct Matrix33_float a; VF_IN (int, in_i); VF_ASSUME (0 <= in_i && in_i < 3); float *r = F_m33_idx (&a, in_i); VF_POST (r == (float *) &a + 3 * in_i, "Matrix33 row access is row-major"); (void) r; VF_END (); }
void h_m44_idx (void) { struct Matrix44_float a; VF_IN (int, in_i); VF_ASSUME (0 <= in_i && in_i < 4); float *r = F_m44_idx (&a, in_i); VF_POST (r == (float *) &a + 4 * in_i, "Matrix44 row access is row-major"); (void) r; VF_END (); }
#define IN_V3D(d) VF_IN_ARR (double, in_d, 3); struct Vec3_double d = { in_d[0], in_d[1], in_d[2] }
#define IN_V3F(f) VF_IN_ARR (float, in_f, 3); struct Vec3_float f = { in_f[0], in_f[1], in_f[2] }
void h_v3_from_d (void) { IN_V3D (d); IN_V3F (f); F_v3_from_d (&f, &d); VF_POST (FEQ (f.x, (float) d.x) && FEQ (f.y, (float) d.y) && FEQ (f.z, (float) d.z), "Vec3<float>(Vec3<double>) casts per slot"); VF_END (); }
void h_v3_from_i (void) { VF_IN_ARR (int, in_i, 3); struct Vec3_int d = { in_i[0], in_i[1], in_i[2] }; IN_V3F (f); F_v3_from_i (&f, &d); VF_POST (f.x == (float) d.x && f.y == (float) d.y && f.z == (float) d.z, "Vec3<float>(Vec3<int>) casts per slot"); VF_END (); }
void h_v3_set3 (void) { IN_V3D (d); IN_V3F (f); F_v3_set3 (&f, d.x, d.y, d.z); VF_POST (FEQ (f.x, (float) d.x) && FEQ (f.y, (float) d.y) && FEQ (f.z, (float) d.z), "setValue(a,b,c)"); VF_END (); }
void h_v3_setv (void) { IN_V3D (d); IN_V3F (f); F_v3_setv (&f, &d); VF_POST (FEQ (f.x, (float) d.x) && FEQ (f.y, (float) d.y) && FEQ (f.z, (float) d.z), "setValue(Vec3<S>)"); VF_END (); }
void h_v3_get3 (void) { IN_V3F (f); double a = 0, b = 0, c = 0; F_v3_get3 (&f, &a, &b, &c); VF_POST (FEQ (a, (double) f.x) && FEQ (b, (double) f.y) && FEQ (c, (double) f.z), "getValue(a,b,c)"); VF_END (); }
void h_v3_getv (void) { IN_V3F (f); struct Vec3_double d = { 0, 0, 0 }; F_v3_getv (&f, &d); VF_POST (FEQ (d.x, (double) f.x) && FEQ (d.y, (double) f.y) && FEQ (d.z, (double) f.z), "getValue(Vec3<S>&)"); VF_END (); }
#define IN_M33D(d) VF_IN_ARR (double, in_d, 9); struct Matrix33_double d; for (int i = 0; i < 9; i++) d.x[i / 3][i % 3] = in_d[i]
#define IN_M33F(f) VF_IN_ARR (float, in_f, 9); struct Matrix33_float f; for (int i = 0; i < 9; i++) f.x[i / 3][i % 3] = in_f[i]
void h_m33_from_d (void) { IN_M33D (d); IN_M33F (f); F_m33_from_d (&f, &d); VF_POST (m33_is_cast (f, d), "Matrix33<float>(Matrix33<double>) casts per entry"); VF_END (); }
void h_m33_setv (void) { IN_M33D (d); IN_M33F (f); F_m33_setv (&f, &d); VF_POST (m33_is_cast (f, d), "Matrix33::setValue(Matrix33<S>)"); VF_END (); }
void h_m33_getv (void) { IN_M33D (d); IN_M33F (f); F_m33_getv (&f, &d); VF_POST (m33_is_castd (d, f), "Matrix33::getValue(Matrix33<S>&)"); VF_END (); }
