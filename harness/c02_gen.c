/* C02: the table generator's conversion function, cut from /repo/src/Imath/toFloat.cpp on every run
 * (c02_halfToFloat.inc; dropped: main() and its iostream printing). */
#include "vf.h"
#include "spec_half.h"
#include "c02_halfToFloat.inc"
unsigned int halfToFloat (unsigned short y) __CPROVER_assigns () __CPROVER_ensures (__CPROVER_return_value == spec_h2f (y));
void h_gen (void)
{
    VF_IN (uint16_t, in_y);
    unsigned int r = halfToFloat (in_y);
    VF_POST (r == spec_h2f (in_y), "toFloat.cpp halfToFloat(y) is the binary16 value of y");
    (void) r;
    VF_END ();
}
