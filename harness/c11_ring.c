/* C11 (algebraic clauses, RING, T = int with wrap-around, cos/sin uninterpreted ring-valued functions):
 * for each of the 12 static orders Euler::toMatrix33() is the product of the three elementary row-vector rotations the order's NAME
 * spells - order ABC with angles (a0,a1,a2): R_A(a0) R_B(a1) R_C(a2); each of the 12 rotating orders equals the static order with the
 * same bits on the reversed angle triple; the XYZ order agrees with Matrix44::setEulerAngles.  Only the evenness of cos and oddness of sin are used (built into the model). */
#include "vf.h"
#include "c11r_names.h"
#include "c11r_orders.h" /* generated from the enum in ImathEuler.h on every run: ORD_<name> = value */
#ifdef VF_NATIVE
#include "c11rx.fwd.c"
#else
#include "c11rx.c"
#endif
typedef struct Euler_int EU;
typedef struct Matrix33_int M33;
typedef struct Matrix44_int M44;
#define RC(a) ((int) cxx2c_ring_cosi (a))
#define RS(a) ((int) cxx2c_ring_sini (a))
static inline M33 rot (int axis, int a)
{
    M33 r; memset (&r, 0, sizeof r);
    int p = (axis + 1) % 3, q = (axis + 2) % 3; /* rotation about `axis` turns p towards q */
    r.x[axis][axis] = 1; r.x[p][p] = RC (a); r.x[p][q] = RS (a); r.x[q][p] = -RS (a); r.x[q][q] = RC (a);
    return r;
}
#ifndef ORD
#define ORD ORD_XYZ
#define AX0 0
#define AX1 1
#define AX2 2
#define ROTATING 0
#endif
void h_order_product (void)
{
    VF_IN (int, in_x); VF_IN (int, in_y); VF_IN (int, in_z);
    /* trigonometric facts used: cos even, sin odd - built into the uninterpreted model (cxx2c_rt.h) */
    EU e; memset (&e, 0, sizeof e); e._base.x = in_x; e._base.y = in_y; e._base.z = in_z;
    F_setOrder (&e, ORD);
    M33 m = F_toMatrix33 (&e);
    M33 r0 = rot (AX0, in_x), r1 = rot (AX1, in_y), r2 = rot (AX2, in_z);
#if ROTATING
    M33 t = F_mul33 (&r2, &r1); M33 s = F_mul33 (&t, &r0);
#else
    M33 t = F_mul33 (&r0, &r1); M33 s = F_mul33 (&t, &r2);
#endif
    for (int i = 0; i < 3; i++) for (int j = 0; j < 3; j++) VF_ASSERT (m.x[i][j] == s.x[i][j], "toMatrix33() is the product of the elementary rotations the order's name spells");
    VF_END ();
}
/* rotating ("r") orders: frame duality (Shoemake) - the rotating order with bits (A,B,C) applied to (a0,a1,a2) is the static order with
 * the same bits applied to (a2,a1,a0); with the static units above this fixes each r order's matrix as a product of elementary rotations */
void h_order_rotating (void)
{
    VF_IN (int, in_x); VF_IN (int, in_y); VF_IN (int, in_z);
    EU e; memset (&e, 0, sizeof e); e._base.x = in_x; e._base.y = in_y; e._base.z = in_z;
    EU f; memset (&f, 0, sizeof f); f._base.x = in_z; f._base.y = in_y; f._base.z = in_x;
    VF_ASSERT (((ORD) & 1) == 0, "an r order has the frame-static bit clear");
    F_setOrder (&e, ORD);
    F_setOrder (&f, (ORD) | 1);
    M33 m = F_toMatrix33 (&e), s = F_toMatrix33 (&f);
    for (int i = 0; i < 3; i++) for (int j = 0; j < 3; j++) VF_ASSERT (m.x[i][j] == s.x[i][j], "rotating order == static order with the same axis/parity/repeat bits on the reversed angle triple");
    VF_END ();
}
void h_xyz_setEuler (void)
{
    VF_IN (int, in_x); VF_IN (int, in_y); VF_IN (int, in_z);
    EU e; memset (&e, 0, sizeof e); e._base.x = in_x; e._base.y = in_y; e._base.z = in_z;
    F_setOrder (&e, ORD_XYZ);
    M44 a = F_toMatrix44 (&e);
    M44 b; memset (&b, 0, sizeof b); struct Vec3_int r = { in_x, in_y, in_z };
    F_setEuler44 (&b, &r);
    for (int i = 0; i < 4; i++) for (int j = 0; j < 4; j++) VF_ASSERT (a.x[i][j] == b.x[i][j], "Euler(x,y,z,XYZ).toMatrix44() equals Matrix44::setEulerAngles((x,y,z))");
    VF_END ();
}
