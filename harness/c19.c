/* C19: PyImath FixedArray<int> - indexing and read-only protection (accessor classes, operator[],
 * direct_index, canonical_index, match_dimension), extracted from PyImathFixedArray.h.
 * Library models: boost::shared_array<size_t> -> { size_t *px } (ownership dropped), boost::any opaque,
 * PyErr_SetString / throw_error_already_set -> ghost state (cxx2c_pyerr, cxx2c_thrown). */
#include "vf.h"
#include "c19_names.h"
#ifdef VF_NATIVE
#include "c19x.fwd.c"
#else
#include "c19x.c"
#endif
typedef struct FixedArray_int FA;
typedef struct FixedArray_int_ReadOnlyDirectAccess RDA;
typedef struct FixedArray_int_WritableDirectAccess WDA;
typedef struct FixedArray_int_ReadOnlyMaskedAccess RMA;
typedef struct FixedArray_int_WritableMaskedAccess WMA;

#define MASKED(a) ((a).  _indices.px != 0)
#define RD(p) __CPROVER_r_ok (p, sizeof (*(p)))
#define RW(p) __CPROVER_rw_ok (p, sizeof (*(p)))
#define NBUF 8
/* representation invariant of a view (for the harness' 8-element buffers) */
#define WF(a) ((a)._stride >= 1 && (a)._stride <= NBUF && (a)._length <= NBUF && (a)._unmaskedLength <= NBUF \
               && (MASKED (a) ? ((a)._unmaskedLength == 0 || ((a)._unmaskedLength - 1) * (a)._stride < NBUF) \
                              : ((a)._length == 0 || ((a)._length - 1) * (a)._stride < NBUF)))

/* ---- canonical_index: Python index semantics ---- */
#define CI_OK(i, len) ((i) >= -(long) (len) && (i) < (long) (len))
#define CI_VAL(i, len) ((unsigned long) ((i) < 0 ? (i) + (long) (len) : (i)))
unsigned long F_canonical_index (FA *this_, long index)
    __CPROVER_requires (RD (this_) && this_->_length <= 0x7fffffffffffffffUL)
    __CPROVER_assigns (cxx2c_thrown, cxx2c_pyerr)
    __CPROVER_ensures ((cxx2c_thrown != 0) == !CI_OK (index, this_->_length))
    __CPROVER_ensures (cxx2c_thrown == 0 || (cxx2c_thrown == CXX2C_E_boost_python_error_already_set && cxx2c_pyerr == CXX2C_PyExc_IndexError))
    __CPROVER_ensures (cxx2c_thrown != 0 || (__CPROVER_return_value == CI_VAL (index, this_->_length) && __CPROVER_return_value < this_->_length));

/* ---- element access: write access only through a writable array ---- */
#define ELEM(a, i) (&(a)._ptr[(MASKED (a) ? (a)._indices.px[i] : (i)) * (a)._stride])
int *F_index (FA *this_, unsigned long i)
    __CPROVER_requires (RD (this_) && i < this_->_length)
    __CPROVER_assigns (cxx2c_thrown)
    __CPROVER_ensures ((cxx2c_thrown != 0) == !this_->_writable)                              /* raises exactly for read-only arrays */
    __CPROVER_ensures (cxx2c_thrown == 0 || cxx2c_thrown == CXX2C_E_std_invalid_argument)
    __CPROVER_ensures (cxx2c_thrown != 0 || __CPROVER_return_value == ELEM (*this_, i));
int *F_index_c (FA *this_, unsigned long i)
    __CPROVER_requires (RD (this_) && i < this_->_length) __CPROVER_assigns ()
    __CPROVER_ensures (__CPROVER_return_value == ELEM (*this_, i));
int *F_direct_index (FA *this_, unsigned long i)
    __CPROVER_requires (RD (this_)) __CPROVER_assigns (cxx2c_thrown)
    __CPROVER_ensures ((cxx2c_thrown != 0) == !this_->_writable)
    __CPROVER_ensures (cxx2c_thrown != 0 || __CPROVER_return_value == &this_->_ptr[i * this_->_stride]);
void F_makeReadOnly (FA *this_) __CPROVER_requires (RW (this_)) __CPROVER_assigns (this_->_writable) __CPROVER_ensures (!this_->_writable);

/* ---- match_dimension ---- */
#define MD_THROWS(a, blen, strict) ((long) (a)._length != (blen) && ((strict) || !MASKED (a) || (long) (a)._unmaskedLength != (blen)))
unsigned long F_match_dimension (FA *this_, FA *a1, _Bool strictComparison)
    __CPROVER_requires (RD (this_) && RD (a1)) __CPROVER_assigns (cxx2c_thrown)
    __CPROVER_ensures ((cxx2c_thrown != 0) == MD_THROWS (*this_, (long) a1->_length, strictComparison))
    __CPROVER_ensures (cxx2c_thrown == 0 || cxx2c_thrown == CXX2C_E_std_invalid_argument)
    __CPROVER_ensures (cxx2c_thrown != 0 || __CPROVER_return_value == this_->_length);

/* ---- the four accessor classes that guard vectorised reads and writes ---- */
void F_rda_ctor (RDA *this_, FA *array) __CPROVER_requires (RW (this_) && RD (array)) __CPROVER_assigns (*this_, cxx2c_thrown)
    __CPROVER_ensures ((cxx2c_thrown != 0) == MASKED (*array))
    __CPROVER_ensures (cxx2c_thrown != 0 || (this_->_ptr == array->_ptr && this_->_stride == array->_stride));
void F_wda_ctor (WDA *this_, FA *array) __CPROVER_requires (RW (this_) && RD (array)) __CPROVER_assigns (*this_, cxx2c_thrown)
    __CPROVER_ensures ((cxx2c_thrown != 0) == (MASKED (*array) || !array->_writable))           /* never grants write access to a read-only array */
    __CPROVER_ensures (cxx2c_thrown != 0 || (this_->_ptr == array->_ptr && this_->_base._stride == array->_stride));
void F_rma_ctor (RMA *this_, FA *array) __CPROVER_requires (RW (this_) && RD (array)) __CPROVER_assigns (*this_, cxx2c_thrown)
    __CPROVER_ensures ((cxx2c_thrown != 0) == !MASKED (*array))
    __CPROVER_ensures (cxx2c_thrown != 0 || (this_->_ptr == array->_ptr && this_->_stride == array->_stride && this_->_indices.px == array->_indices.px));
void F_wma_ctor (WMA *this_, FA *array) __CPROVER_requires (RW (this_) && RD (array)) __CPROVER_assigns (*this_, cxx2c_thrown)
    __CPROVER_ensures ((cxx2c_thrown != 0) == (!MASKED (*array) || !array->_writable))          /* never grants write access to a read-only array */
    __CPROVER_ensures (cxx2c_thrown != 0 || (this_->_ptr == array->_ptr && this_->_base._indices.px == array->_indices.px));
int *F_rda_index (RDA *this_, unsigned long i) __CPROVER_requires (RD (this_)) __CPROVER_assigns () __CPROVER_ensures (__CPROVER_return_value == &this_->_ptr[i * this_->_stride]);
int *F_wda_index (WDA *this_, unsigned long i) __CPROVER_requires (RD (this_)) __CPROVER_assigns () __CPROVER_ensures (__CPROVER_return_value == &this_->_ptr[i * this_->_base._stride]);

/* ------------------------------------------------------------------ harnesses */
static int vf_buf[NBUF];
static unsigned long vf_idx[NBUF];
#define IN_FA(a, pre)                                                                     \
    VF_IN (unsigned long, pre##_len); VF_IN (unsigned long, pre##_stride); VF_IN (unsigned long, pre##_ulen); \
    VF_IN (_Bool, pre##_writable); VF_IN (_Bool, pre##_masked);                            \
    FA a; memset (&a, 0, sizeof a);                                                        \
    a._ptr = vf_buf; a._length = pre##_len; a._stride = pre##_stride; a._writable = pre##_writable; \
    a._unmaskedLength = pre##_ulen; a._indices.px = pre##_masked ? &vf_idx[0] : (unsigned long *) 0

void h_canonical_index (void)
{
    IN_FA (a, in_a); VF_IN (long, in_i);
    VF_ASSUME (a._length <= 0x7fffffffffffffffUL);
    cxx2c_thrown = 0;
    unsigned long r = F_canonical_index (&a, in_i); (void) r;
    VF_POST ((cxx2c_thrown != 0) == !CI_OK (in_i, a._length), "canonical_index raises exactly for i outside [-len, len)");
    VF_POST (cxx2c_thrown != 0 || (r == CI_VAL (in_i, a._length) && r < a._length), "canonical_index is the Python index");
    VF_END ();
}
#define IDX_SETUP()                                                                       \
    IN_FA (a, in_a); VF_IN (unsigned long, in_i);                                          \
    VF_IN_ARR (unsigned long, in_idx, NBUF);                                               \
    for (int k = 0; k < NBUF; k++) vf_idx[k] = in_idx[k];                                  \
    VF_ASSUME (WF (a) && in_i < a._length);                                                \
    if (MASKED (a)) for (int k = 0; k < NBUF; k++) VF_ASSUME (vf_idx[k] < a._unmaskedLength)
void h_index (void)
{
    IDX_SETUP ();
    cxx2c_thrown = 0;
    int *r = F_index (&a, in_i); (void) r;
    VF_POST ((cxx2c_thrown != 0) == !a._writable, "non-const operator[] raises exactly for read-only arrays");
    VF_POST (cxx2c_thrown != 0 || r == ELEM (a, in_i), "operator[] addresses element (masked ? indices[i] : i) * stride");
    VF_END ();
}
void h_index_c (void) { IDX_SETUP (); int *r = F_index_c (&a, in_i); (void) r; VF_POST (r == ELEM (a, in_i), "const operator[] address"); VF_END (); }
void h_direct_index (void)
{
    IDX_SETUP ();
    VF_ASSUME (!MASKED (a));
    cxx2c_thrown = 0;
    int *r = F_direct_index (&a, in_i); (void) r;
    VF_POST ((cxx2c_thrown != 0) == !a._writable, "direct_index raises exactly for read-only arrays");
    VF_END ();
}
void h_makeReadOnly (void) { IN_FA (a, in_a); F_makeReadOnly (&a); VF_POST (!a._writable, "makeReadOnly"); VF_END (); }
void h_match_dimension (void)
{
    IN_FA (a, in_a); IN_FA (b, in_b); VF_IN (_Bool, in_strict);
    cxx2c_thrown = 0;
    unsigned long r = F_match_dimension (&a, &b, in_strict); (void) r;
    VF_POST ((cxx2c_thrown != 0) == MD_THROWS (a, (long) b._length, in_strict), "match_dimension raises exactly on mismatched lengths");
    VF_END ();
}
#define H_ACC(name, T, cond, msg)                                                          \
    void h_##name (void) { IN_FA (a, in_a); T acc; memset (&acc, 0, sizeof acc); cxx2c_thrown = 0; F_##name (&acc, &a); \
        VF_POST ((cxx2c_thrown != 0) == (cond), msg); VF_END (); }
H_ACC (rda_ctor, RDA, MASKED (a), "ReadOnlyDirectAccess refused exactly for masked arrays")
H_ACC (wda_ctor, WDA, MASKED (a) || !a._writable, "WritableDirectAccess refused for masked or read-only arrays")
H_ACC (rma_ctor, RMA, !MASKED (a), "ReadOnlyMaskedAccess refused exactly for unmasked arrays")
H_ACC (wma_ctor, WMA, !MASKED (a) || !a._writable, "WritableMaskedAccess refused for unmasked or READ-ONLY arrays")
/* lemma over the contracts: whatever accessor or element reference is obtained from a read-only array, no pointer
 * through which the data could be written is handed out */
void h_lemma_readonly (void)
{
    IDX_SETUP ();
    VF_ASSUME (!a._writable);
    WDA w1; memset (&w1, 0, sizeof w1); WMA w2; memset (&w2, 0, sizeof w2);
    cxx2c_thrown = 0; F_wda_ctor (&w1, &a); VF_ASSERT (cxx2c_thrown != 0, "WritableDirectAccess on a read-only array raises");
    cxx2c_thrown = 0; F_wma_ctor (&w2, &a); VF_ASSERT (cxx2c_thrown != 0, "WritableMaskedAccess on a read-only array raises");
    cxx2c_thrown = 0; (void) F_index (&a, in_i); VF_ASSERT (cxx2c_thrown != 0, "operator[] on a read-only array raises");
    cxx2c_thrown = 0; (void) F_direct_index (&a, in_i); VF_ASSERT (cxx2c_thrown != 0, "direct_index on a read-only array raises");
    VF_END ();
}
