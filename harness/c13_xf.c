/* C13, ImathBoxAlgo.h: transform / affineTransform, all four overloads (Box<Vec3<float>>, Matrix44<float>):
 * empty boxes map to empty and infinite boxes to infinite; the out-parameter overloads leave what the value-returning
 * overloads return; transform with an affine matrix equals affineTransform.  Arithmetic uninterpreted (mode ABS) for
 * the relational clauses. */
#include "vf.h"
#include "c04_spec.h"
#include "c13x_names.h"
#if defined(VF_NATIVE)
#include "c13xx.fwd.c"
#elif defined(XF_ABS_VMUL)
/* operator*(Vec3, Matrix44) abstracted: three uninterpreted functions of the 19 input floats (the relational clause
 * holds for any pure point transform; purity/frame of the real operator is C04/C05's contract) */
#include "c13xv.h"
float __CPROVER_uninterpreted_xfvm0 (float, float, float, float, float, float, float, float, float, float, float, float, float, float, float, float, float, float, float);
float __CPROVER_uninterpreted_xfvm1 (float, float, float, float, float, float, float, float, float, float, float, float, float, float, float, float, float, float, float);
float __CPROVER_uninterpreted_xfvm2 (float, float, float, float, float, float, float, float, float, float, float, float, float, float, float, float, float, float, float);
#define XFVM_ARGS v->x, v->y, v->z, m->x[0][0], m->x[0][1], m->x[0][2], m->x[0][3], m->x[1][0], m->x[1][1], m->x[1][2], m->x[1][3], m->x[2][0], m->x[2][1], m->x[2][2], m->x[2][3], m->x[3][0], m->x[3][1], m->x[3][2], m->x[3][3]
struct Vec3_float cxx2c_xf_vmul (struct Vec3_float *v, struct Matrix44_float *m)
{
    struct Vec3_float r;
    r.x = __CPROVER_uninterpreted_xfvm0 (XFVM_ARGS); r.y = __CPROVER_uninterpreted_xfvm1 (XFVM_ARGS); r.z = __CPROVER_uninterpreted_xfvm2 (XFVM_ARGS);
    return r;
}
#include "c13xv.c"
#else
#include "c13xx.c"
#endif
typedef struct Box_Vec3_float B3;
typedef struct Matrix44_float M44;
#define FMX 3.40282346638528859812e+38F
#define EMPTYB(b) ((b).max.x < (b).min.x || (b).max.y < (b).min.y || (b).max.z < (b).min.z)
#define ISINF(b) ((b).min.x == -FMX && (b).min.y == -FMX && (b).min.z == -FMX && (b).max.x == FMX && (b).max.y == FMX && (b).max.z == FMX)
#define BEQ(a, b) (FEQ ((a).min.x, (b).min.x) && FEQ ((a).min.y, (b).min.y) && FEQ ((a).min.z, (b).min.z) && FEQ ((a).max.x, (b).max.x) && FEQ ((a).max.y, (b).max.y) && FEQ ((a).max.z, (b).max.z))
#define NN6(in) ((in)[0] == (in)[0] && (in)[1] == (in)[1] && (in)[2] == (in)[2] && (in)[3] == (in)[3] && (in)[4] == (in)[4] && (in)[5] == (in)[5])
#define SETUP()                                                                                                  \
    VF_IN_ARR (float, in_b, 6); VF_IN_ARR (float, in_m, 16); VF_IN_ARR (float, in_r, 6);                          \
    VF_ASSUME (NN6 (in_b) && NN6 (in_r));                                                                         \
    B3 b; b.min.x = in_b[0]; b.min.y = in_b[1]; b.min.z = in_b[2]; b.max.x = in_b[3]; b.max.y = in_b[4]; b.max.z = in_b[5]; \
    B3 res; res.min.x = in_r[0]; res.min.y = in_r[1]; res.min.z = in_r[2]; res.max.x = in_r[3]; res.max.y = in_r[4]; res.max.z = in_r[5]; \
    M44 m; for (int i = 0; i < 16; i++) m.x[i / 4][i % 4] = in_m[i]

/* empty -> empty, infinite -> infinite: all four overloads (res holds an arbitrary previous value for the out-parameter forms) */
void h_degenerate_transform_value (void) { SETUP (); VF_ASSUME (EMPTYB (b) || ISINF (b)); B3 r = F_transform_v (&b, &m); VF_ASSERT (!EMPTYB (b) || EMPTYB (r), "transform(box, m): empty -> empty"); VF_ASSERT (!ISINF (b) || ISINF (r), "transform(box, m): infinite -> infinite"); VF_END (); }
void h_degenerate_affine_value (void) { SETUP (); VF_ASSUME (EMPTYB (b) || ISINF (b)); B3 r = F_affine_v (&b, &m); VF_ASSERT (!EMPTYB (b) || EMPTYB (r), "affineTransform(box, m): empty -> empty"); VF_ASSERT (!ISINF (b) || ISINF (r), "affineTransform(box, m): infinite -> infinite"); VF_END (); }
void h_degenerate_transform_out (void) { SETUP (); VF_ASSUME (EMPTYB (b) || ISINF (b)); F_transform_o (&b, &m, &res); VF_ASSERT (!EMPTYB (b) || EMPTYB (res), "transform(box, m, result): empty -> empty"); VF_ASSERT (!ISINF (b) || ISINF (res), "transform(box, m, result): infinite -> infinite"); VF_END (); }
void h_degenerate_affine_out (void) { SETUP (); VF_ASSUME (EMPTYB (b) || ISINF (b)); F_affine_o (&b, &m, &res); VF_ASSERT (!EMPTYB (b) || EMPTYB (res), "affineTransform(box, m, result): empty -> empty"); VF_ASSERT (!ISINF (b) || ISINF (res), "affineTransform(box, m, result): infinite -> infinite"); VF_END (); }
/* out-parameter overloads leave what the value-returning overloads return (non-degenerate boxes) */
#define AFFINE(m) ((m).x[0][3] == 0 && (m).x[1][3] == 0 && (m).x[2][3] == 0 && (m).x[3][3] == 1)
void h_rel_transform_out (void) { SETUP (); VF_ASSUME (!EMPTYB (b) && !ISINF (b));
#ifdef XF_AFFINE
    m.x[0][3] = 0; m.x[1][3] = 0; m.x[2][3] = 0; m.x[3][3] = 1;
#else
    VF_ASSUME (!AFFINE (m));
#endif
    B3 r = F_transform_v (&b, &m); F_transform_o (&b, &m, &res); VF_ASSERT (BEQ (r, res), "transform(box, m, result) leaves what transform(box, m) returns"); VF_END (); }
void h_rel_affine_out (void) { SETUP (); VF_ASSUME (!EMPTYB (b) && !ISINF (b)); B3 r = F_affine_v (&b, &m); F_affine_o (&b, &m, &res); VF_ASSERT (BEQ (r, res), "affineTransform(box, m, result) leaves what affineTransform(box, m) returns"); VF_END (); }
/* the fast path of transform is affineTransform */
void h_rel_transform_affine (void)
{
    SETUP ();
    VF_ASSUME (!EMPTYB (b) && !ISINF (b));
    m.x[0][3] = 0; m.x[1][3] = 0; m.x[2][3] = 0; m.x[3][3] = 1;
    B3 r1 = F_transform_v (&b, &m), r2 = F_affine_v (&b, &m);
    VF_ASSERT (BEQ (r1, r2), "for an affine matrix transform(box, m) equals affineTransform(box, m)");
    VF_END ();
}
