/* C05: products, transposes, minors, determinants equal their algebraic definitions.
 *
 * RING mode: the templates instantiated by clang at T = unsigned int (Z/2^32, wrap-around is
 * the ring operation).  The spec functions below are the textbook sums written as loops over
 * indices; they are NOT derived from the code.  F_* names are #defined by c05_names.h
 * (generated: alias -> extracted function name, looked up by C++ signature on every run).
 */
#include "vf.h"
#include "c05_names.h"
#ifdef VF_NATIVE
#include "c05x.fwd.c"
#else
#include "c05x.c"
#endif

typedef unsigned int U;
typedef struct Matrix22_uint M22;
typedef struct Matrix33_uint M33;
typedef struct Matrix44_uint M44;
typedef struct Vec2_uint V2;
typedef struct Vec3_uint V3;
typedef struct Vec4_uint V4;
typedef struct Quat_uint QU;

/* ------------------------------------------------------------------ textbook definitions */
/* n x n matrices are passed as pointer to the first entry of a row-major T x[n][n] */
/* generic carrier, by value: entries of an n x n matrix row-major in e[0 .. n*n), or a vector in e[0 .. n) */
typedef struct { U e[16]; } SM;
#define E(m, n, i, j) ((m).e[(i) * (n) + (j)])
static inline SM sm22 (M22 m) { SM r = { { 0 } }; for (int i = 0; i < 2; i++) for (int j = 0; j < 2; j++) r.e[i * 2 + j] = m.x[i][j]; return r; }
static inline SM sm33 (M33 m) { SM r = { { 0 } }; for (int i = 0; i < 3; i++) for (int j = 0; j < 3; j++) r.e[i * 3 + j] = m.x[i][j]; return r; }
static inline SM sm44 (M44 m) { SM r = { { 0 } }; for (int i = 0; i < 4; i++) for (int j = 0; j < 4; j++) r.e[i * 4 + j] = m.x[i][j]; return r; }
static inline SM sv2 (V2 v) { SM r = { { 0 } }; r.e[0] = v.x; r.e[1] = v.y; return r; }
static inline SM sv3 (V3 v) { SM r = { { 0 } }; r.e[0] = v.x; r.e[1] = v.y; r.e[2] = v.z; return r; }
static inline SM sv4 (V4 v) { SM r = { { 0 } }; r.e[0] = v.x; r.e[1] = v.y; r.e[2] = v.z; r.e[3] = v.w; return r; }

static inline _Bool spec_is_product (SM r, SM a, SM b, int n)
{
    for (int i = 0; i < n; i++)
        for (int j = 0; j < n; j++)
        {
            U s = 0;
            for (int k = 0; k < n; k++) s += E (a, n, i, k) * E (b, n, k, j);
            if (E (r, n, i, j) != s) return 0;
        }
    return 1;
}
static inline _Bool spec_is_transpose (SM r, SM a, int n)
{
    for (int i = 0; i < n; i++)
        for (int j = 0; j < n; j++)
            if (E (r, n, i, j) != E (a, n, j, i)) return 0;
    return 1;
}
static inline U spec_trace (SM a, int n)
{
    U s = 0;
    for (int i = 0; i < n; i++) s += E (a, n, i, i);
    return s;
}
static inline U spec_det2 (U a, U b, U c, U d) { return a * d - b * c; }
/* Leibniz formula, 3x3: sum over the six permutations with sign */
static inline U spec_det3 (SM m, int n, int r0, int r1, int r2, int c0, int c1, int c2)
{
    return E (m, n, r0, c0) * E (m, n, r1, c1) * E (m, n, r2, c2) + E (m, n, r0, c1) * E (m, n, r1, c2) * E (m, n, r2, c0)
           + E (m, n, r0, c2) * E (m, n, r1, c0) * E (m, n, r2, c1) - E (m, n, r0, c2) * E (m, n, r1, c1) * E (m, n, r2, c0)
           - E (m, n, r0, c1) * E (m, n, r1, c0) * E (m, n, r2, c2) - E (m, n, r0, c0) * E (m, n, r1, c2) * E (m, n, r2, c1);
}
/* index of the k-th row (column) left after deleting row (column) d */
static inline int spec_skip (int k, int d) { return k < d ? k : k + 1; }
/* Laplace expansion of the 4x4 determinant along row 0 */
static inline U spec_det4 (SM m)
{
    U s = 0;
    for (int j = 0; j < 4; j++)
    {
        U mn = spec_det3 (m, 4, 1, 2, 3, spec_skip (0, j), spec_skip (1, j), spec_skip (2, j));
        if (j % 2 == 0) s += E (m, 4, 0, j) * mn; else s -= E (m, 4, 0, j) * mn;
    }
    return s;
}
/* minor (r,c): determinant of the matrix with row r and column c deleted */
static inline U spec_minor4 (SM m, int r, int c)
{
    return spec_det3 (m, 4, spec_skip (0, r), spec_skip (1, r), spec_skip (2, r), spec_skip (0, c), spec_skip (1, c), spec_skip (2, c));
}
static inline U spec_minor3 (SM m, int r, int c)
{
    return spec_det2 (E (m, 3, spec_skip (0, r), spec_skip (0, c)), E (m, 3, spec_skip (0, r), spec_skip (1, c)),
                      E (m, 3, spec_skip (1, r), spec_skip (0, c)), E (m, 3, spec_skip (1, r), spec_skip (1, c)));
}
/* row vector times matrix: (v M)[j] = sum_i v[i] M[i][j]; with `homog` a trailing 1 is appended to v */
static inline U spec_vm (SM v, int nv, SM m, int n, int j, int homog)
{
    U s = 0;
    for (int i = 0; i < nv; i++) s += v.e[i] * E (m, n, i, j);
    if (homog) s += E (m, n, nv, j);
    return s;
}

#define SMN(n, m) sm##n##n (m)
/* ------------------------------------------------------------------ contracts */
#define RD(p) __CPROVER_r_ok (p, sizeof (*(p)))
#define RW(p) __CPROVER_rw_ok (p, sizeof (*(p)))

/* matrix x matrix, every spelling */
M22 F_mm22 (M22 *this_, M22 *v) __CPROVER_requires (RD (this_) && RD (v)) __CPROVER_assigns ()
    __CPROVER_ensures (spec_is_product (sm22 (__CPROVER_return_value), sm22 (*this_), sm22 (*v), 2));
M33 F_mm33 (M33 *this_, M33 *v) __CPROVER_requires (RD (this_) && RD (v)) __CPROVER_assigns ()
    __CPROVER_ensures (spec_is_product (sm33 (__CPROVER_return_value), sm33 (*this_), sm33 (*v), 3));
M44 F_mm44 (M44 *this_, M44 *v) __CPROVER_requires (RD (this_) && RD (v)) __CPROVER_assigns ()
    __CPROVER_ensures (spec_is_product (sm44 (__CPROVER_return_value), sm44 (*this_), sm44 (*v), 4));
M22 *F_mmeq22 (M22 *this_, M22 *v) __CPROVER_requires (RW (this_) && RD (v)) __CPROVER_assigns (*this_)
    __CPROVER_ensures (spec_is_product (sm22 (*this_), sm22 (__CPROVER_old (*this_)), sm22 (__CPROVER_old (*v)), 2)) __CPROVER_ensures (__CPROVER_return_value == this_);
M33 *F_mmeq33 (M33 *this_, M33 *v) __CPROVER_requires (RW (this_) && RD (v)) __CPROVER_assigns (*this_)
    __CPROVER_ensures (spec_is_product (sm33 (*this_), sm33 (__CPROVER_old (*this_)), sm33 (__CPROVER_old (*v)), 3)) __CPROVER_ensures (__CPROVER_return_value == this_);
M44 *F_mmeq44 (M44 *this_, M44 *v) __CPROVER_requires (RW (this_) && RD (v)) __CPROVER_assigns (*this_)
    __CPROVER_ensures (spec_is_product (sm44 (*this_), sm44 (__CPROVER_old (*this_)), sm44 (__CPROVER_old (*v)), 4)) __CPROVER_ensures (__CPROVER_return_value == this_);
void F_multiply3 (M44 *a, M44 *b, M44 *c) __CPROVER_requires (RD (a) && RD (b) && RW (c)) __CPROVER_assigns (*c)
    __CPROVER_ensures (spec_is_product (sm44 (*c), sm44 (__CPROVER_old (*a)), sm44 (__CPROVER_old (*b)), 4));
M44 F_multiply2 (M44 *a, M44 *b) __CPROVER_requires (RD (a) && RD (b)) __CPROVER_assigns ()
    __CPROVER_ensures (spec_is_product (sm44 (__CPROVER_return_value), sm44 (*a), sm44 (*b), 4));

/* transpose */
M22 F_tr22 (M22 *this_) __CPROVER_requires (RD (this_)) __CPROVER_assigns () __CPROVER_ensures (spec_is_transpose (sm22 (__CPROVER_return_value), sm22 (*this_), 2));
M33 F_tr33 (M33 *this_) __CPROVER_requires (RD (this_)) __CPROVER_assigns () __CPROVER_ensures (spec_is_transpose (sm33 (__CPROVER_return_value), sm33 (*this_), 3));
M44 F_tr44 (M44 *this_) __CPROVER_requires (RD (this_)) __CPROVER_assigns () __CPROVER_ensures (spec_is_transpose (sm44 (__CPROVER_return_value), sm44 (*this_), 4));
M22 *F_tri22 (M22 *this_) __CPROVER_requires (RW (this_)) __CPROVER_assigns (*this_) __CPROVER_ensures (spec_is_transpose (sm22 (*this_), sm22 (__CPROVER_old (*this_)), 2)) __CPROVER_ensures (__CPROVER_return_value == this_);
M33 *F_tri33 (M33 *this_) __CPROVER_requires (RW (this_)) __CPROVER_assigns (*this_) __CPROVER_ensures (spec_is_transpose (sm33 (*this_), sm33 (__CPROVER_old (*this_)), 3)) __CPROVER_ensures (__CPROVER_return_value == this_);
M44 *F_tri44 (M44 *this_) __CPROVER_requires (RW (this_)) __CPROVER_assigns (*this_) __CPROVER_ensures (spec_is_transpose (sm44 (*this_), sm44 (__CPROVER_old (*this_)), 4)) __CPROVER_ensures (__CPROVER_return_value == this_);

/* trace */
U F_trace22 (M22 *this_) __CPROVER_requires (RD (this_)) __CPROVER_assigns () __CPROVER_ensures (__CPROVER_return_value == spec_trace (sm22 (*this_), 2));
U F_trace33 (M33 *this_) __CPROVER_requires (RD (this_)) __CPROVER_assigns () __CPROVER_ensures (__CPROVER_return_value == spec_trace (sm33 (*this_), 3));
U F_trace44 (M44 *this_) __CPROVER_requires (RD (this_)) __CPROVER_assigns () __CPROVER_ensures (__CPROVER_return_value == spec_trace (sm44 (*this_), 4));

/* determinants */
U F_det22 (M22 *this_) __CPROVER_requires (RD (this_)) __CPROVER_assigns ()
    __CPROVER_ensures (__CPROVER_return_value == spec_det2 (this_->x[0][0], this_->x[0][1], this_->x[1][0], this_->x[1][1]));
U F_det33 (M33 *this_) __CPROVER_requires (RD (this_)) __CPROVER_assigns ()
    __CPROVER_ensures (__CPROVER_return_value == spec_det3 (sm33 (*this_), 3, 0, 1, 2, 0, 1, 2));
U F_det44 (M44 *this_) __CPROVER_requires (RD (this_)) __CPROVER_assigns ()
    __CPROVER_ensures (__CPROVER_return_value == spec_det4 (sm44 (*this_)));
/* minors: r, c range over every row / column (requires), stated once for symbolic r, c */
U F_minor33 (M33 *this_, int r, int c) __CPROVER_requires (RD (this_) && 0 <= r && r < 3 && 0 <= c && c < 3) __CPROVER_assigns ()
    __CPROVER_ensures (__CPROVER_return_value == spec_minor3 (sm33 (*this_), r, c));
U F_minor44 (M44 *this_, int r, int c) __CPROVER_requires (RD (this_) && 0 <= r && r < 4 && 0 <= c && c < 4) __CPROVER_assigns ()
    __CPROVER_ensures (__CPROVER_return_value == spec_minor4 (sm44 (*this_), r, c));
U F_fastminor33 (M33 *this_, int r0, int r1, int c0, int c1)
    __CPROVER_requires (RD (this_) && 0 <= r0 && r0 < 3 && 0 <= r1 && r1 < 3 && 0 <= c0 && c0 < 3 && 0 <= c1 && c1 < 3) __CPROVER_assigns ()
    __CPROVER_ensures (__CPROVER_return_value == spec_det2 (this_->x[r0][c0], this_->x[r0][c1], this_->x[r1][c0], this_->x[r1][c1]));
U F_fastminor44 (M44 *this_, int r0, int r1, int r2, int c0, int c1, int c2)
    __CPROVER_requires (RD (this_) && 0 <= r0 && r0 < 4 && 0 <= r1 && r1 < 4 && 0 <= r2 && r2 < 4 && 0 <= c0 && c0 < 4 && 0 <= c1 && c1 < 4 && 0 <= c2 && c2 < 4)
    __CPROVER_assigns ()
    __CPROVER_ensures (__CPROVER_return_value == spec_det3 (sm44 (*this_), 4, r0, r1, r2, c0, c1, c2));

/* dot / cross */
U F_dot2 (V2 *this_, V2 *v) __CPROVER_requires (RD (this_) && RD (v)) __CPROVER_assigns () __CPROVER_ensures (__CPROVER_return_value == this_->x * v->x + this_->y * v->y);
U F_dot3 (V3 *this_, V3 *v) __CPROVER_requires (RD (this_) && RD (v)) __CPROVER_assigns () __CPROVER_ensures (__CPROVER_return_value == this_->x * v->x + this_->y * v->y + this_->z * v->z);
U F_dot4 (V4 *this_, V4 *v) __CPROVER_requires (RD (this_) && RD (v)) __CPROVER_assigns () __CPROVER_ensures (__CPROVER_return_value == this_->x * v->x + this_->y * v->y + this_->z * v->z + this_->w * v->w);
U F_dotop2 (V2 *this_, V2 *v) __CPROVER_requires (RD (this_) && RD (v)) __CPROVER_assigns () __CPROVER_ensures (__CPROVER_return_value == this_->x * v->x + this_->y * v->y);
U F_dotop3 (V3 *this_, V3 *v) __CPROVER_requires (RD (this_) && RD (v)) __CPROVER_assigns () __CPROVER_ensures (__CPROVER_return_value == this_->x * v->x + this_->y * v->y + this_->z * v->z);
U F_dotop4 (V4 *this_, V4 *v) __CPROVER_requires (RD (this_) && RD (v)) __CPROVER_assigns () __CPROVER_ensures (__CPROVER_return_value == this_->x * v->x + this_->y * v->y + this_->z * v->z + this_->w * v->w);
/* 2-D cross product: the scalar x1 y2 - y1 x2 */
U F_cross2 (V2 *this_, V2 *v) __CPROVER_requires (RD (this_) && RD (v)) __CPROVER_assigns () __CPROVER_ensures (__CPROVER_return_value == this_->x * v->y - this_->y * v->x);
U F_crossop2 (V2 *this_, V2 *v) __CPROVER_requires (RD (this_) && RD (v)) __CPROVER_assigns () __CPROVER_ensures (__CPROVER_return_value == this_->x * v->y - this_->y * v->x);
/* 3-D right-handed cross product */
#define CROSS3_OK(R, A, B) ((R).x == (A).y * (B).z - (A).z * (B).y && (R).y == (A).z * (B).x - (A).x * (B).z && (R).z == (A).x * (B).y - (A).y * (B).x)
V3 F_cross3 (V3 *this_, V3 *v) __CPROVER_requires (RD (this_) && RD (v)) __CPROVER_assigns () __CPROVER_ensures (CROSS3_OK (__CPROVER_return_value, *this_, *v));
V3 F_crossop3 (V3 *this_, V3 *v) __CPROVER_requires (RD (this_) && RD (v)) __CPROVER_assigns () __CPROVER_ensures (CROSS3_OK (__CPROVER_return_value, *this_, *v));
V3 *F_crosseq3 (V3 *this_, V3 *v) __CPROVER_requires (RW (this_) && RD (v)) __CPROVER_assigns (*this_)
    __CPROVER_ensures (CROSS3_OK (*this_, __CPROVER_old (*this_), __CPROVER_old (*v))) __CPROVER_ensures (__CPROVER_return_value == this_);

/* quaternion (Hamilton) product: (r1 r2 - v1.v2, r1 v2 + r2 v1 + v1 x v2) */
#define QMUL_OK(R, A, B)                                                                            \
    ((R).r == (A).r * (B).r - ((A).v.x * (B).v.x + (A).v.y * (B).v.y + (A).v.z * (B).v.z)          \
     && (R).v.x == (A).r * (B).v.x + (B).r * (A).v.x + ((A).v.y * (B).v.z - (A).v.z * (B).v.y)     \
     && (R).v.y == (A).r * (B).v.y + (B).r * (A).v.y + ((A).v.z * (B).v.x - (A).v.x * (B).v.z)     \
     && (R).v.z == (A).r * (B).v.z + (B).r * (A).v.z + ((A).v.x * (B).v.y - (A).v.y * (B).v.x))
QU F_qmul (QU *q1, QU *q2) __CPROVER_requires (RD (q1) && RD (q2)) __CPROVER_assigns () __CPROVER_ensures (QMUL_OK (__CPROVER_return_value, *q1, *q2));
QU *F_qmuleq (QU *this_, QU *q) __CPROVER_requires (RW (this_) && RD (q)) __CPROVER_assigns (*this_)
    __CPROVER_ensures (QMUL_OK (*this_, __CPROVER_old (*this_), __CPROVER_old (*q))) __CPROVER_ensures (__CPROVER_return_value == this_);

/* outer product a^T b:  r[i][j] = a[i] b[j] */
M33 F_outer3 (V3 *a, V3 *b) __CPROVER_requires (RD (a) && RD (b)) __CPROVER_assigns ()
    __CPROVER_ensures (__CPROVER_return_value.x[0][0] == a->x * b->x && __CPROVER_return_value.x[0][1] == a->x * b->y && __CPROVER_return_value.x[0][2] == a->x * b->z
                       && __CPROVER_return_value.x[1][0] == a->y * b->x && __CPROVER_return_value.x[1][1] == a->y * b->y && __CPROVER_return_value.x[1][2] == a->y * b->z
                       && __CPROVER_return_value.x[2][0] == a->z * b->x && __CPROVER_return_value.x[2][1] == a->z * b->y && __CPROVER_return_value.x[2][2] == a->z * b->z);
static inline _Bool spec_is_outer4 (SM r, SM a, SM b)
{
    for (int i = 0; i < 4; i++) for (int j = 0; j < 4; j++) if (E (r, 4, i, j) != a.e[i] * b.e[j]) return 0;
    return 1;
}
#define OUTER4_OK(R, A, B) ((R).x[0][0] == (A).x * (B).x && (R).x[0][1] == (A).x * (B).y && (R).x[0][2] == (A).x * (B).z && (R).x[0][3] == (A).x * (B).w && (R).x[1][0] == (A).y * (B).x && (R).x[1][1] == (A).y * (B).y && (R).x[1][2] == (A).y * (B).z && (R).x[1][3] == (A).y * (B).w && (R).x[2][0] == (A).z * (B).x && (R).x[2][1] == (A).z * (B).y && (R).x[2][2] == (A).z * (B).z && (R).x[2][3] == (A).z * (B).w && (R).x[3][0] == (A).w * (B).x && (R).x[3][1] == (A).w * (B).y && (R).x[3][2] == (A).w * (B).z && (R).x[3][3] == (A).w * (B).w)
M44 F_outer4 (V4 *a, V4 *b) __CPROVER_requires (RD (a) && RD (b)) __CPROVER_assigns ()
    __CPROVER_ensures (OUTER4_OK (__CPROVER_return_value, *a, *b));

/* vector x matrix (row vector on the left) */
#define V2A(v) sv2 (v)
#define V3A(v) sv3 (v)
#define V4A(v) sv4 (v)
/* plain products */
#define VM44_OK(R, V, M) ((R).x == spec_vm (V4A (V), 4, sm44 (M), 4, 0, 0) && (R).y == spec_vm (V4A (V), 4, sm44 (M), 4, 1, 0) && (R).z == spec_vm (V4A (V), 4, sm44 (M), 4, 2, 0) && (R).w == spec_vm (V4A (V), 4, sm44 (M), 4, 3, 0))
#define VM33_OK(R, V, M) ((R).x == spec_vm (V3A (V), 3, sm33 (M), 3, 0, 0) && (R).y == spec_vm (V3A (V), 3, sm33 (M), 3, 1, 0) && (R).z == spec_vm (V3A (V), 3, sm33 (M), 3, 2, 0))
#define VM22_OK(R, V, M) ((R).x == spec_vm (V2A (V), 2, sm22 (M), 2, 0, 0) && (R).y == spec_vm (V2A (V), 2, sm22 (M), 2, 1, 0))
/* homogeneous: append 1, divide by the last coordinate */
#define VMH44_OK(R, V, M) ((R).x == spec_vm (V3A (V), 3, sm44 (M), 4, 0, 1) / spec_vm (V3A (V), 3, sm44 (M), 4, 3, 1) && (R).y == spec_vm (V3A (V), 3, sm44 (M), 4, 1, 1) / spec_vm (V3A (V), 3, sm44 (M), 4, 3, 1) && (R).z == spec_vm (V3A (V), 3, sm44 (M), 4, 2, 1) / spec_vm (V3A (V), 3, sm44 (M), 4, 3, 1))
#define VMH33_OK(R, V, M) ((R).x == spec_vm (V2A (V), 2, sm33 (M), 3, 0, 1) / spec_vm (V2A (V), 2, sm33 (M), 3, 2, 1) && (R).y == spec_vm (V2A (V), 2, sm33 (M), 3, 1, 1) / spec_vm (V2A (V), 2, sm33 (M), 3, 2, 1))
/* direction: translation row ignored, no division */
#define VMD44_OK(R, V, M) ((R).x == spec_vm (V3A (V), 3, sm44 (M), 4, 0, 0) && (R).y == spec_vm (V3A (V), 3, sm44 (M), 4, 1, 0) && (R).z == spec_vm (V3A (V), 3, sm44 (M), 4, 2, 0))
#define VMD33_OK(R, V, M) ((R).x == spec_vm (V2A (V), 2, sm33 (M), 3, 0, 0) && (R).y == spec_vm (V2A (V), 2, sm33 (M), 3, 1, 0))
#define WNZ44(V, M) (spec_vm (V3A (V), 3, sm44 (M), 4, 3, 1) != 0)
#define WNZ33(V, M) (spec_vm (V2A (V), 2, sm33 (M), 3, 2, 1) != 0)

V4 F_v4m44 (V4 *v, M44 *m) __CPROVER_requires (RD (v) && RD (m)) __CPROVER_assigns () __CPROVER_ensures (VM44_OK (__CPROVER_return_value, *v, *m));
V4 *F_v4m44eq (V4 *v, M44 *m) __CPROVER_requires (RW (v) && RD (m)) __CPROVER_assigns (*v) __CPROVER_ensures (VM44_OK (*v, __CPROVER_old (*v), *m)) __CPROVER_ensures (__CPROVER_return_value == v);
V3 F_v3m33 (V3 *v, M33 *m) __CPROVER_requires (RD (v) && RD (m)) __CPROVER_assigns () __CPROVER_ensures (VM33_OK (__CPROVER_return_value, *v, *m));
V3 *F_v3m33eq (V3 *v, M33 *m) __CPROVER_requires (RW (v) && RD (m)) __CPROVER_assigns (*v) __CPROVER_ensures (VM33_OK (*v, __CPROVER_old (*v), *m)) __CPROVER_ensures (__CPROVER_return_value == v);
V2 F_v2m22 (V2 *v, M22 *m) __CPROVER_requires (RD (v) && RD (m)) __CPROVER_assigns () __CPROVER_ensures (VM22_OK (__CPROVER_return_value, *v, *m));
V2 *F_v2m22eq (V2 *v, M22 *m) __CPROVER_requires (RW (v) && RD (m)) __CPROVER_assigns (*v) __CPROVER_ensures (VM22_OK (*v, __CPROVER_old (*v), *m)) __CPROVER_ensures (__CPROVER_return_value == v);
V3 F_v3m44 (V3 *v, M44 *m) __CPROVER_requires (RD (v) && RD (m) && WNZ44 (*v, *m)) __CPROVER_assigns () __CPROVER_ensures (VMH44_OK (__CPROVER_return_value, *v, *m));
V3 *F_v3m44eq (V3 *v, M44 *m) __CPROVER_requires (RW (v) && RD (m) && WNZ44 (*v, *m)) __CPROVER_assigns (*v) __CPROVER_ensures (VMH44_OK (*v, __CPROVER_old (*v), *m)) __CPROVER_ensures (__CPROVER_return_value == v);
V2 F_v2m33 (V2 *v, M33 *m) __CPROVER_requires (RD (v) && RD (m) && WNZ33 (*v, *m)) __CPROVER_assigns () __CPROVER_ensures (VMH33_OK (__CPROVER_return_value, *v, *m));
V2 *F_v2m33eq (V2 *v, M33 *m) __CPROVER_requires (RW (v) && RD (m) && WNZ33 (*v, *m)) __CPROVER_assigns (*v) __CPROVER_ensures (VMH33_OK (*v, __CPROVER_old (*v), *m)) __CPROVER_ensures (__CPROVER_return_value == v);
void F_mvm44 (M44 *this_, V3 *src, V3 *dst) __CPROVER_requires (RD (this_) && RD (src) && RW (dst) && WNZ44 (*src, *this_)) __CPROVER_assigns (*dst)
    __CPROVER_ensures (VMH44_OK (*dst, __CPROVER_old (*src), *this_));
void F_mdm44 (M44 *this_, V3 *src, V3 *dst) __CPROVER_requires (RD (this_) && RD (src) && RW (dst)) __CPROVER_assigns (*dst)
    __CPROVER_ensures (VMD44_OK (*dst, __CPROVER_old (*src), *this_));
void F_mvm33 (M33 *this_, V2 *src, V2 *dst) __CPROVER_requires (RD (this_) && RD (src) && RW (dst) && WNZ33 (*src, *this_)) __CPROVER_assigns (*dst)
    __CPROVER_ensures (VMH33_OK (*dst, __CPROVER_old (*src), *this_));
void F_mdm33 (M33 *this_, V2 *src, V2 *dst) __CPROVER_requires (RD (this_) && RD (src) && RW (dst)) __CPROVER_assigns (*dst)
    __CPROVER_ensures (VMD33_OK (*dst, __CPROVER_old (*src), *this_));

/* ------------------------------------------------------------------ harnesses */
#define IN_M(n, name, in)                                                      \
    VF_IN_ARR (U, in, n * n);                                                  \
    struct Matrix##n##n##_uint name;                                           \
    for (int vi = 0; vi < n * n; vi++) name.x[vi / n][vi % n] = in[vi]
#define IN_V2(name, in) VF_IN_ARR (U, in, 2); V2 name; name.x = in[0]; name.y = in[1]
#define IN_V3(name, in) VF_IN_ARR (U, in, 3); V3 name; name.x = in[0]; name.y = in[1]; name.z = in[2]
#define IN_V4(name, in) VF_IN_ARR (U, in, 4); V4 name; name.x = in[0]; name.y = in[1]; name.z = in[2]; name.w = in[3]
#ifndef VF_ALIAS
#define VF_ALIAS 0
#endif

#define H_MM(n)                                                                                                         \
    void h_mm##n##n (void) { IN_M (n, a, in_a); IN_M (n, b, in_b); M##n##n *pb = VF_ALIAS ? &a : &b; M##n##n a0 = a, b0 = *pb;    \
        M##n##n r = F_mm##n##n (&a, pb); VF_POST (spec_is_product (SMN (n, r), SMN (n, a0), SMN (n, b0), n), "operator* is the matrix product"); (void) r; VF_END (); } \
    void h_mmeq##n##n (void) { IN_M (n, a, in_a); IN_M (n, b, in_b); M##n##n *pb = VF_ALIAS ? &a : &b; M##n##n a0 = a, b0 = *pb;  \
        F_mmeq##n##n (&a, pb); VF_POST (spec_is_product (SMN (n, a), SMN (n, a0), SMN (n, b0), n), "operator*= is the matrix product"); VF_END (); } \
    void h_tr##n##n (void) { IN_M (n, a, in_a); M##n##n r = F_tr##n##n (&a); VF_POST (spec_is_transpose (SMN (n, r), SMN (n, a), n), "transposed"); (void) r; VF_END (); } \
    void h_tri##n##n (void) { IN_M (n, a, in_a); M##n##n a0 = a; F_tri##n##n (&a); VF_POST (spec_is_transpose (SMN (n, a), SMN (n, a0), n), "transpose in place"); VF_END (); } \
    void h_trace##n##n (void) { IN_M (n, a, in_a); U r = F_trace##n##n (&a); VF_POST (r == spec_trace (SMN (n, a), n), "trace"); (void) r; VF_END (); }
H_MM (2)
H_MM (3)
H_MM (4)

void h_multiply3 (void)
{
    IN_M (4, a, in_a); IN_M (4, b, in_b); IN_M (4, c, in_c);
    M44 a0 = a, b0 = b;
    /* the out-parameter may alias either operand (VF_ALIAS: 1 = c is a, 2 = c is b) */
    M44 *pc = VF_ALIAS == 1 ? &a : (VF_ALIAS == 2 ? &b : &c);
    F_multiply3 (&a, &b, pc);
    VF_POST (spec_is_product (sm44 (*pc), sm44 (a0), sm44 (b0), 4), "multiply(a,b,c): c is the product of the operands as they were on entry");
    VF_END ();
}
void h_multiply2 (void) { IN_M (4, a, in_a); IN_M (4, b, in_b); M44 r = F_multiply2 (&a, &b); VF_POST (spec_is_product (sm44 (r), sm44 (a), sm44 (b), 4), "multiply(a,b)"); (void) r; VF_END (); }

void h_det22 (void) { IN_M (2, a, in_a); U r = F_det22 (&a); VF_POST (r == spec_det2 (a.x[0][0], a.x[0][1], a.x[1][0], a.x[1][1]), "2x2 determinant"); (void) r; VF_END (); }
void h_det33 (void) { IN_M (3, a, in_a); U r = F_det33 (&a); VF_POST (r == spec_det3 (sm33 (a), 3, 0, 1, 2, 0, 1, 2), "3x3 determinant (Leibniz)"); (void) r; VF_END (); }
void h_det44 (void) { IN_M (4, a, in_a); U r = F_det44 (&a); VF_POST (r == spec_det4 (sm44 (a)), "4x4 determinant (Laplace along row 0)"); (void) r; VF_END (); }
#ifndef VF_R
#define VF_R 0
#define VF_C 0
#endif
/* one unit per (r, c): concrete indices, symbolic entries */
void h_minor33 (void) { IN_M (3, a, in_a); U r = F_minor33 (&a, VF_R, VF_C); VF_POST (r == spec_minor3 (sm33 (a), VF_R, VF_C), "minorOf 3x3"); (void) r; VF_END (); }
void h_minor44 (void) { IN_M (4, a, in_a); U r = F_minor44 (&a, VF_R, VF_C); VF_POST (r == spec_minor4 (sm44 (a), VF_R, VF_C), "minorOf 4x4"); (void) r; VF_END (); }
void h_fastminor33 (void)
{
    IN_M (3, a, in_a);
    VF_IN (int, in_r0); VF_IN (int, in_r1); VF_IN (int, in_c0); VF_IN (int, in_c1);
    VF_ASSUME (0 <= in_r0 && in_r0 < 3 && 0 <= in_r1 && in_r1 < 3 && 0 <= in_c0 && in_c0 < 3 && 0 <= in_c1 && in_c1 < 3);
    U r = F_fastminor33 (&a, in_r0, in_r1, in_c0, in_c1);
    VF_POST (r == spec_det2 (a.x[in_r0][in_c0], a.x[in_r0][in_c1], a.x[in_r1][in_c0], a.x[in_r1][in_c1]), "fastMinor 3x3");
    (void) r; VF_END ();
}
void h_fastminor44 (void)
{
    IN_M (4, a, in_a);
    U r = F_fastminor44 (&a, VF_R, (VF_R + 1) % 4, (VF_R + 2) % 4, VF_C, (VF_C + 1) % 4, (VF_C + 3) % 4);
    VF_POST (r == spec_det3 (sm44 (a), 4, VF_R, (VF_R + 1) % 4, (VF_R + 2) % 4, VF_C, (VF_C + 1) % 4, (VF_C + 3) % 4), "fastMinor 4x4");
    (void) r; VF_END ();
}

#define H_VV(n, name, T, post)                                                                                   \
    void h_##name (void) { IN_V##n (a, in_a); IN_V##n (b, in_b); V##n *pb = VF_ALIAS ? &a : &b; V##n a0 = a, b0 = *pb; (void) a0; (void) b0; \
        T r = F_##name (&a, pb); VF_POST (post, #name); (void) r; VF_END (); }
H_VV (2, dot2, U, r == a0.x * b0.x + a0.y * b0.y)
H_VV (3, dot3, U, r == a0.x * b0.x + a0.y * b0.y + a0.z * b0.z)
H_VV (4, dot4, U, r == a0.x * b0.x + a0.y * b0.y + a0.z * b0.z + a0.w * b0.w)
H_VV (2, dotop2, U, r == a0.x * b0.x + a0.y * b0.y)
H_VV (3, dotop3, U, r == a0.x * b0.x + a0.y * b0.y + a0.z * b0.z)
H_VV (4, dotop4, U, r == a0.x * b0.x + a0.y * b0.y + a0.z * b0.z + a0.w * b0.w)
H_VV (2, cross2, U, r == a0.x * b0.y - a0.y * b0.x)
H_VV (2, crossop2, U, r == a0.x * b0.y - a0.y * b0.x)
H_VV (3, cross3, V3, CROSS3_OK (r, a0, b0))
H_VV (3, crossop3, V3, CROSS3_OK (r, a0, b0))
void h_crosseq3 (void) { IN_V3 (a, in_a); IN_V3 (b, in_b); V3 *pb = VF_ALIAS ? &a : &b; V3 a0 = a, b0 = *pb; F_crosseq3 (&a, pb); VF_POST (CROSS3_OK (a, a0, b0), "%="); VF_END (); }

#define IN_Q(name, in) VF_IN_ARR (U, in, 4); QU name; name.r = in[0]; name.v.x = in[1]; name.v.y = in[2]; name.v.z = in[3]
void h_qmul (void) { IN_Q (a, in_a); IN_Q (b, in_b); QU *pb = VF_ALIAS ? &a : &b; QU a0 = a, b0 = *pb; QU r = F_qmul (&a, pb); VF_POST (QMUL_OK (r, a0, b0), "quaternion product"); (void) r; VF_END (); }
void h_qmuleq (void) { IN_Q (a, in_a); IN_Q (b, in_b); QU *pb = VF_ALIAS ? &a : &b; QU a0 = a, b0 = *pb; F_qmuleq (&a, pb); VF_POST (QMUL_OK (a, a0, b0), "quaternion *="); VF_END (); }

void h_outer3 (void) { IN_V3 (a, in_a); IN_V3 (b, in_b); M33 r = F_outer3 (&a, &b); VF_POST (r.x[1][2] == a.y * b.z && r.x[2][0] == a.z * b.x && r.x[0][1] == a.x * b.y, "outerProduct 3x3"); (void) r; VF_END (); }
void h_outer4 (void) { IN_V4 (a, in_a); IN_V4 (b, in_b); M44 r = F_outer4 (&a, &b); VF_POST (OUTER4_OK (r, a, b), "outerProduct 4x4"); (void) r; VF_END (); }

void h_v4m44 (void) { IN_V4 (v, in_v); IN_M (4, m, in_m); V4 r = F_v4m44 (&v, &m); VF_POST (VM44_OK (r, v, m), "Vec4 x Matrix44"); (void) r; VF_END (); }
void h_v4m44eq (void) { IN_V4 (v, in_v); IN_M (4, m, in_m); V4 v0 = v; F_v4m44eq (&v, &m); VF_POST (VM44_OK (v, v0, m), "Vec4 *= Matrix44"); VF_END (); }
void h_v3m33 (void) { IN_V3 (v, in_v); IN_M (3, m, in_m); V3 r = F_v3m33 (&v, &m); VF_POST (VM33_OK (r, v, m), "Vec3 x Matrix33"); (void) r; VF_END (); }
void h_v3m33eq (void) { IN_V3 (v, in_v); IN_M (3, m, in_m); V3 v0 = v; F_v3m33eq (&v, &m); VF_POST (VM33_OK (v, v0, m), "Vec3 *= Matrix33"); VF_END (); }
void h_v2m22 (void) { IN_V2 (v, in_v); IN_M (2, m, in_m); V2 r = F_v2m22 (&v, &m); VF_POST (VM22_OK (r, v, m), "Vec2 x Matrix22"); (void) r; VF_END (); }
void h_v2m22eq (void) { IN_V2 (v, in_v); IN_M (2, m, in_m); V2 v0 = v; F_v2m22eq (&v, &m); VF_POST (VM22_OK (v, v0, m), "Vec2 *= Matrix22"); VF_END (); }
void h_v3m44 (void) { IN_V3 (v, in_v); IN_M (4, m, in_m); VF_ASSUME (WNZ44 (v, m)); V3 r = F_v3m44 (&v, &m); VF_POST (VMH44_OK (r, v, m), "Vec3 x Matrix44 (homogeneous)"); (void) r; VF_END (); }
void h_v3m44eq (void) { IN_V3 (v, in_v); IN_M (4, m, in_m); VF_ASSUME (WNZ44 (v, m)); V3 v0 = v; F_v3m44eq (&v, &m); VF_POST (VMH44_OK (v, v0, m), "Vec3 *= Matrix44"); VF_END (); }
void h_v2m33 (void) { IN_V2 (v, in_v); IN_M (3, m, in_m); VF_ASSUME (WNZ33 (v, m)); V2 r = F_v2m33 (&v, &m); VF_POST (VMH33_OK (r, v, m), "Vec2 x Matrix33 (homogeneous)"); (void) r; VF_END (); }
void h_v2m33eq (void) { IN_V2 (v, in_v); IN_M (3, m, in_m); VF_ASSUME (WNZ33 (v, m)); V2 v0 = v; F_v2m33eq (&v, &m); VF_POST (VMH33_OK (v, v0, m), "Vec2 *= Matrix33"); VF_END (); }
void h_mvm44 (void) { IN_V3 (v, in_v); IN_M (4, m, in_m); VF_ASSUME (WNZ44 (v, m)); V3 d; V3 v0 = v; V3 *pd = VF_ALIAS ? &v : &d; F_mvm44 (&m, &v, pd); VF_POST (VMH44_OK (*pd, v0, m), "multVecMatrix 4x4"); VF_END (); }
void h_mdm44 (void) { IN_V3 (v, in_v); IN_M (4, m, in_m); V3 d; V3 v0 = v; V3 *pd = VF_ALIAS ? &v : &d; F_mdm44 (&m, &v, pd); VF_POST (VMD44_OK (*pd, v0, m), "multDirMatrix 4x4"); VF_END (); }
void h_mvm33 (void) { IN_V2 (v, in_v); IN_M (3, m, in_m); VF_ASSUME (WNZ33 (v, m)); V2 d; V2 v0 = v; V2 *pd = VF_ALIAS ? &v : &d; F_mvm33 (&m, &v, pd); VF_POST (VMH33_OK (*pd, v0, m), "multVecMatrix 3x3"); VF_END (); }
void h_mdm33 (void) { IN_V2 (v, in_v); IN_M (3, m, in_m); V2 d; V2 v0 = v; V2 *pd = VF_ALIAS ? &v : &d; F_mdm33 (&m, &v, pd); VF_POST (VMD33_OK (*pd, v0, m), "multDirMatrix 3x3"); VF_END (); }

/* ------------------------------------------------------------------ lemmas over the real functions */
#define H_DETMUL(n)                                                                                   \
    void h_lemma_detmul##n (void) { IN_M (n, a, in_a); IN_M (n, b, in_b); M##n##n c = F_mm##n##n (&a, &b);   \
        VF_ASSERT (F_det##n##n (&c) == F_det##n##n (&a) * F_det##n##n (&b), "det(A*B) == det(A)*det(B)"); VF_END (); } \
    void h_lemma_dettr##n (void) { IN_M (n, a, in_a); M##n##n t = F_tr##n##n (&a);                            \
        VF_ASSERT (F_det##n##n (&t) == F_det##n##n (&a), "det(transpose A) == det(A)"); VF_END (); }
H_DETMUL (2)
H_DETMUL (3)
H_DETMUL (4)
/* cofactor expansion by minorOf along row VF_R and along column VF_C reproduces determinant() */
void h_lemma_cofactor33 (void)
{
    IN_M (3, a, in_a);
    U row = 0, col = 0;
    for (int j = 0; j < 3; j++) { U t = a.x[VF_R][j] * F_minor33 (&a, VF_R, j); if ((VF_R + j) % 2 == 0) row += t; else row -= t; }
    for (int i = 0; i < 3; i++) { U t = a.x[i][VF_C] * F_minor33 (&a, i, VF_C); if ((VF_C + i) % 2 == 0) col += t; else col -= t; }
    U d = F_det33 (&a);
    VF_ASSERT (row == d, "cofactor expansion along a row reproduces determinant()");
    VF_ASSERT (col == d, "cofactor expansion along a column reproduces determinant()");
    VF_END ();
}
void h_lemma_cofactor44 (void)
{
    IN_M (4, a, in_a);
    U row = 0, col = 0;
    for (int j = 0; j < 4; j++) { U t = a.x[VF_R][j] * F_minor44 (&a, VF_R, j); if ((VF_R + j) % 2 == 0) row += t; else row -= t; }
    for (int i = 0; i < 4; i++) { U t = a.x[i][VF_C] * F_minor44 (&a, i, VF_C); if ((VF_C + i) % 2 == 0) col += t; else col -= t; }
    U d = F_det44 (&a);
    VF_ASSERT (row == d, "cofactor expansion along a row reproduces determinant()");
    VF_ASSERT (col == d, "cofactor expansion along a column reproduces determinant()");
    VF_END ();
}
