/* C02 bounded stand-in (NOT a proof, never counted): the F16C build of half.h enumerated natively
 * over all 2^16 halves and all 2^32 floats against the spec; NaN payload differences tolerated. */
#include <stdio.h>
#include <stdint.h>
#include <string.h>
#include "spec_half.h"
#include "half.h"
#ifndef __F16C__
#error "compile with -mf16c"
#endif
int main (int argc, char **argv)
{
    unsigned part = argc > 1 ? (unsigned) atoi (argv[1]) : 0, parts = argc > 2 ? (unsigned) atoi (argv[2]) : 1;
    unsigned long bad = 0, n = 0;
    if (part == 0)
        for (unsigned h = 0; h < 65536; h++)
        {
            float f = imath_half_to_float ((uint16_t) h); uint32_t u; memcpy (&u, &f, 4);
            uint32_t s = spec_h2f ((uint16_t) h);
            int nan = spec_half_class ((uint16_t) h) == SPEC_HC_NAN;
            if (nan ? !((u & 0x7fffffffu) > 0x7f800000u && (u >> 31) == (s >> 31)) : u != s) { if (bad < 5) printf ("h2f mismatch %04x: %08x vs %08x\n", h, u, s); bad++; }
            n++;
        }
    uint64_t lo = (uint64_t) part * (1ull << 32) / parts, hi = (uint64_t) (part + 1) * (1ull << 32) / parts;
    for (uint64_t b = lo; b < hi; b++)
    {
        uint32_t u = (uint32_t) b; float f; memcpy (&f, &u, 4);
        uint16_t r = imath_float_to_half (f), s = spec_f2h (u);
        int nan = (u & 0x7fffffffu) > 0x7f800000u;
        if (nan ? !((r & 0x7fff) > 0x7c00 && (r >> 15) == (s >> 15)) : r != s) { if (bad < 5) printf ("f2h mismatch %08x: %04x vs %04x\n", u, r, s); bad++; }
        n++;
    }
    printf ("cases %lu bad %lu\n", n, bad);
    return bad ? 1 : 0;
}
