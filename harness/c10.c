/* C10 (algebraic clauses, RING, T = unsigned int), homogenised so that each identity holds for EVERY quaternion
 * and specialises to the property's statement at unit norm N = q.q = 1. */
#include "vf.h"
#include "c10_names.h"
#ifdef VF_NATIVE
#include "c10x.fwd.c"
#else
#include "c10x.c"
#endif
typedef unsigned int U;
typedef struct Quat_uint Q;
typedef struct Vec3_uint V3;
typedef struct Matrix33_uint M33;
typedef struct Matrix44_uint M44;
#define IN_Q(q, in) VF_IN_ARR (U, in, 4); Q q; q.r = in[0]; q.v.x = in[1]; q.v.y = in[2]; q.v.z = in[3]
#define IN_V3(v, in) VF_IN_ARR (U, in, 3); V3 v; v.x = in[0]; v.y = in[1]; v.z = in[2]
#define NORM2(q) ((q).r * (q).r + (q).v.x * (q).v.x + (q).v.y * (q).v.y + (q).v.z * (q).v.z)

/* v * q  ==  v * q.toMatrix33()   (row vector on the left), for every q */
void h_vq_matrix (void)
{
    IN_Q (q, in_q); IN_V3 (v, in_v);
    V3 a = F_vmulq (&v, &q);
    M33 m = F_toMatrix33 (&q);
    V3 b = F_v3m33 (&v, &m);
    VF_ASSERT (a.x == b.x && a.y == b.y && a.z == b.z, "v * q == v * q.toMatrix33()");
    VF_END ();
}
/* q.rotateVector(v) == v * q + (N - 1) v : equal for unit quaternions */
void h_rotateVector (void)
{
    IN_Q (q, in_q); IN_V3 (v, in_v);
    V3 a = F_rotateVector (&q, &v);
    V3 b = F_vmulq (&v, &q);
    U n1 = NORM2 (q) - 1;
    VF_ASSERT (a.x == b.x + n1 * v.x && a.y == b.y + n1 * v.y && a.z == b.z + n1 * v.z, "rotateVector(v) == v*q + (N-1) v");
    VF_END ();
}
void h_toMatrix_blocks (void)
{
    IN_Q (q, in_q);
    M33 a = F_toMatrix33 (&q); M44 b = F_toMatrix44 (&q);
    for (int i = 0; i < 3; i++) for (int j = 0; j < 3; j++) VF_ASSERT (a.x[i][j] == b.x[i][j], "toMatrix33 and toMatrix44 hold the same block");
    VF_ASSERT (b.x[0][3] == 0 && b.x[1][3] == 0 && b.x[2][3] == 0 && b.x[3][0] == 0 && b.x[3][1] == 0 && b.x[3][2] == 0 && b.x[3][3] == 1, "affine border");
    VF_END ();
}
/* quaternion product corresponds to the matrix product: with K(q) = M(q) + (N-1) I,  K(q1*q2) == K(q2) * K(q1) */
static inline M33 K_of (Q q, M33 m) { U n1 = NORM2 (q) - 1; for (int i = 0; i < 3; i++) m.x[i][i] += n1; return m; }
void h_product_matrix (void)
{
    IN_Q (a, in_a); IN_Q (b, in_b);
    Q ab = F_qmul (&a, &b);
    M33 kab = K_of (ab, F_toMatrix33 (&ab)), ka = K_of (a, F_toMatrix33 (&a)), kb = K_of (b, F_toMatrix33 (&b));
    M33 p = F_mul33 (&kb, &ka);
    for (int i = 0; i < 3; i++) for (int j = 0; j < 3; j++) VF_ASSERT (kab.x[i][j] == p.x[i][j], "K(q1*q2) == K(q2)*K(q1): quaternion multiplication is multiplication of the rotation matrices");
    VF_END ();
}
/* the in-place spelling of the product (q1 *= q2; also q1 *= q1) corresponds to the same matrix product */
void h_product_matrix_inplace (void)
{
    IN_Q (a, in_a); IN_Q (b, in_b); VF_IN (int, in_alias);
    Q a0 = a;
    Q *pb = in_alias ? &a : &b;
    Q b0 = *pb;
    Q *r = F_qmuleq (&a, pb);
    VF_ASSERT (r == &a, "operator*= returns *this");
    M33 kab = K_of (a, F_toMatrix33 (&a)), ka = K_of (a0, F_toMatrix33 (&a0)), kb = K_of (b0, F_toMatrix33 (&b0));
    M33 p = F_mul33 (&kb, &ka);
    for (int i = 0; i < 3; i++) for (int j = 0; j < 3; j++) VF_ASSERT (kab.x[i][j] == p.x[i][j], "after q1 *= q2, K(q1) == K(q2)*K(old q1): the in-place product is the same rotation composition");
    VF_END ();
}
/* ~q conjugates; q * ~q == (N, 0) */
void h_conjugate (void)
{
    IN_Q (q, in_q);
    Q c = F_conj (&q);
    VF_ASSERT (c.r == q.r && c.v.x == -q.v.x && c.v.y == -q.v.y && c.v.z == -q.v.z, "~q negates the vector part only");
    Q p = F_qmul (&q, &c);
    VF_ASSERT (p.r == NORM2 (q) && p.v.x == 0 && p.v.y == 0 && p.v.z == 0, "q * ~q == (N, 0, 0, 0)");
    VF_END ();
}
