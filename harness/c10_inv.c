/* C10: q * inverse(q) is the identity - RETYPE (float text over Z/2^32, a/b = a*inv(b)): with N = q^q the product is
 * (N inv(N), 0, 0, 0), i.e. the identity quaternion up to the explicit residual N inv(N) (1 in a field, for q != 0);
 * likewise inverse(q) * q. */
#include <stdint.h>
#include <stddef.h>
#include <string.h>
#include <stdlib.h>
#include <math.h>
#include "vf.h"
#include "c10i_names.h"
#ifdef VF_NATIVE
#include "c10ix.fwd.c"
typedef float EL;
#define IN_EL_ARR(name, n) VF_IN_ARR (float, name, n)
#define REQ(a, b) (fabs ((double) (a) - (double) (b)) <= 1e-3 * (1.0 + fabs ((double) (a)) + fabs ((double) (b))))
#define RR_INV(b) (1.0f / (b))
#define SANE(x) VF_ASSUME ((x) == (x) && fabsf (x) <= 100.0f)
#else
#define CXX2C_RT_H
#include "cxx2c_rt_ring.h"
#define float int
#define double int
#include "c10ix.c"
#undef float
#undef double
typedef int EL;
#define IN_EL_ARR(name, n) VF_IN_ARR (int, name, n)
#define REQ(a, b) ((a) == (b))
#define SANE(x) do { } while (0)
#endif
typedef struct Quat_float Q;
void h_inverse (void)
{
    IN_EL_ARR (in_q, 4);
    Q q; q.r = in_q[0]; q.v.x = in_q[1]; q.v.y = in_q[2]; q.v.z = in_q[3];
    SANE (q.r); SANE (q.v.x); SANE (q.v.y); SANE (q.v.z);
    EL N = q.r * q.r + q.v.x * q.v.x + q.v.y * q.v.y + q.v.z * q.v.z;
#ifdef VF_NATIVE
    VF_ASSUME (N > 1e-3f);
#endif
    Q qi = F_inverse (&q);
    VF_ASSERT (REQ (qi.r, q.r * RR_INV (N)) && REQ (qi.v.x, -q.v.x * RR_INV (N)) && REQ (qi.v.y, -q.v.y * RR_INV (N)) && REQ (qi.v.z, -q.v.z * RR_INV (N)), "inverse(q) == conjugate(q) / (q^q)");
    Q p = F_qmul (&q, &qi), p2 = F_qmul (&qi, &q);
    VF_ASSERT (REQ (p.r, N * RR_INV (N)) && REQ (p.v.x, 0) && REQ (p.v.y, 0) && REQ (p.v.z, 0), "q * inverse(q) == (N inv(N), 0, 0, 0): the identity for q != 0");
    VF_ASSERT (REQ (p2.r, N * RR_INV (N)) && REQ (p2.v.x, 0) && REQ (p2.v.y, 0) && REQ (p2.v.z, 0), "inverse(q) * q == (N inv(N), 0, 0, 0)");
    VF_END ();
}
