// Native replay for c03.halfFunction against the REAL halfFunction.h (default configuration).  Arguments: name=binary.
#include <half.h>
#include <halfFunction.h>
#include <cstdio>
#include <cstring>
#include <cmath>
#include <string>
static int g_argc; static char **g_argv;
static unsigned long long val (const char *name)
{
    std::string k = std::string (name) + "=";
    for (int i = 1; i < g_argc; i++) { std::string s (g_argv[i]); if (s.rfind (k, 0) == 0) { unsigned long long v = 0; for (char c : s.substr (k.size ())) v = (v << 1) | (c == '1'); return v; } }
    return 0;
}
static float fl (const char *name) { unsigned u = (unsigned) val (name); float f; memcpy (&f, &u, 4); return f; }
static unsigned bits (float f) { unsigned u; memcpy (&u, &f, 4); return u; }
struct F { float operator() (half x) const { return float (x) * 3.0f + 1.0f; } };
int main (int argc, char **argv)
{
    g_argc = argc; g_argv = argv;
    if (argc > 1 && !strcmp (argv[1], "--types")) return 0;
    half lo, hi; lo.setBits ((unsigned short) val ("in_lo")); hi.setBits ((unsigned short) val ("in_hi"));
    float d = fl ("in_dflt"), p = fl ("in_pinf"), n = fl ("in_ninf"), q = fl ("in_nan");
    halfFunction<float> *t = new halfFunction<float> (F (), lo, hi, d, p, n, q);
    int fail = 0;
    // the counterexample's index first, then every pattern
    for (int pass = 0; pass < 2 && !fail; pass++)
        for (unsigned k = (pass ? 0 : (unsigned) val ("in_k")); k < (pass ? 65536u : (unsigned) val ("in_k") + 1); k++)
        {
            half x; x.setBits ((unsigned short) k);
            unsigned e = (k >> 10) & 31, m = k & 1023;
            float want;
            if (e == 31 && m) want = q; else if (e == 31) want = (k & 0x8000) ? n : p;
            else if (float (x) < float (lo) || float (x) > float (hi)) want = d; else want = F () (x);
            float got = (*t) (x);
            if (bits (got) != bits (want) && !(std::isnan (got) && std::isnan (want))) { printf ("REPRODUCED on real code: halfFunction entry 0x%04x is %g, the property gives %g\n", k, got, want); fail = 1; break; }
        }
    if (!fail) printf ("not reproduced\n");
    return fail;
}
