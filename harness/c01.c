/* C01 harnesses: the real half.h (route A, direct inclusion). */
#include "half_c.h"
#if defined(VF_WITH_TABLE) && defined(VF_NATIVE)
/* native replay of the table build links the table exactly as half.cpp defines it */
#include "half_table.inc"
#endif

/* imath_float_to_half against the round-to-nearest-even spec: all 2^32 inputs */
void h_f2h (void)
{
    VF_IN (uint32_t, in_fbits);
    float             f = vf_u2f (in_fbits);
    imath_half_bits_t r = imath_float_to_half (f);
    VF_POST (F2H_POST_SPEC (r, f), "imath_float_to_half(f) == nearest binary16, ties to even");
    VF_POST (F2H_POST_OVERFLOW (r, f), "|f| >= 65520 gives infinity");
    VF_POST (F2H_POST_UNDERFLOW (r, f), "|f| <= 2^-25 gives signed zero");
    VF_POST (F2H_POST_NAN (r, f), "NaN keeps sign and top ten payload bits (payload 1 if zero)");
    VF_POST (F2H_POST_FINITE (r, f), "below 65520 stays finite");
    VF_POST (F2H_POST_SIGN (r, f), "sign preserved");
    (void) r;
    VF_END ();
}

/* imath_half_to_float against the binary16 value spec: all 2^16 inputs */
void h_h2f (void)
{
    VF_IN (uint16_t, in_h);
#if defined(VF_WITH_TABLE) && !defined(VF_NATIVE)
    /* dfcc havocs the mutable global pointer; point it at 65536 arbitrary entries -
       the contract's requires then constrains entry in_h only (table lemma at in_h) */
    static imath_half_uif_t vf_tbl[65536];
    imath_half_to_float_table = vf_tbl;
#endif
    float r = imath_half_to_float (in_h);
    VF_POST (H2F_POST_SPEC (r, in_h), "imath_half_to_float(h) has the bits of the binary16 value");
    (void) r;
    VF_END ();
}

/* lemma over the two contracts: half -> float -> half is the identity off NaN */
void h_roundtrip (void)
{
    VF_IN (uint16_t, in_h);
    VF_ASSUME (spec_half_class (in_h) != SPEC_HC_NAN);
    float             f = imath_half_to_float (in_h);
    imath_half_bits_t r = imath_float_to_half (f);
    VF_ASSERT (r == in_h, "f2h(h2f(h)) == h for every non-NaN h");
    VF_END ();
}

/* lemma: NaN halves round-trip to NaN of same sign, and the payload survives */
void h_roundtrip_nan (void)
{
    VF_IN (uint16_t, in_h);
    VF_ASSUME (spec_half_class (in_h) == SPEC_HC_NAN);
    float             f = imath_half_to_float (in_h);
    imath_half_bits_t r = imath_float_to_half (f);
    VF_ASSERT (r == in_h, "NaN half -> float -> half keeps sign and payload");
    VF_END ();
}

/* lemma: h2f is strictly monotone on the non-NaN halves of each sign
 * (value order == pattern order on magnitudes) */
void h_h2f_monotone (void)
{
    VF_IN (uint16_t, in_a);
    VF_IN (uint16_t, in_b);
    VF_ASSUME ((in_a & 0x7fffu) <= 0x7c00u && (in_b & 0x7fffu) <= 0x7c00u);
    VF_ASSUME ((in_a & 0x8000u) == 0 && (in_b & 0x8000u) == 0 && in_a < in_b);
    float fa = imath_half_to_float (in_a), fb = imath_half_to_float (in_b);
    VF_ASSERT (fa < fb, "h2f strictly increasing on non-negative patterns");
    float na = imath_half_to_float (in_a | 0x8000u), nb = imath_half_to_float (in_b | 0x8000u);
    VF_ASSERT (na == -fa && nb == -fb, "negative patterns are the negated values");
    VF_END ();
}

/* lemma: f2h never inverts order (rounding is monotone) on non-NaN floats */
void h_f2h_monotone (void)
{
    VF_IN (uint32_t, in_a);
    VF_IN (uint32_t, in_b);
    VF_ASSUME (in_a <= 0x7f800000u && in_b <= 0x7f800000u && in_a <= in_b);
    imath_half_bits_t ra = imath_float_to_half (vf_u2f (in_a));
    imath_half_bits_t rb = imath_float_to_half (vf_u2f (in_b));
    VF_ASSERT (ra <= rb, "f2h monotone on non-negative floats");
    VF_END ();
}

/* ---- spec sanity: the spec functions themselves against CBMC's IEEE arithmetic ---- */

/* value of a finite half computed in float arithmetic (exact: 11-bit integer times a power of two) */
void h_spec_h2f_value (void)
{
    VF_IN (uint16_t, in_h);
    uint32_t e = (in_h >> 10) & 0x1fu, m = in_h & 0x3ffu;
    VF_ASSUME (e != 31);
    float mag = (e == 0) ? (float) m * 0x1p-24f
                         : (float) (0x400u | m) * vf_u2f ((e - 25u + 127u) << 23);
    float val = (in_h & 0x8000u) ? -mag : mag;
    float sp  = vf_u2f (spec_h2f (in_h));
    VF_ASSERT (sp == val, "spec_h2f(h) equals (-1)^s * m * 2^(e-25) in IEEE arithmetic");
    VF_ASSERT ((vf_f2u (sp) >> 31) == (uint32_t) (in_h >> 15), "sign bit (signed zero)");
    VF_END ();
}

/* spec_f2h returns a nearest half: no neighbouring half is strictly closer, and on
 * a tie the even pattern is chosen (distances computed exactly in double) */
void h_spec_f2h_nearest (void)
{
    VF_IN (uint32_t, in_fbits);
    uint32_t a = in_fbits & 0x7fffffffu;
    VF_ASSUME (a < 0x477ff000u); /* finite result range */
    uint16_t r  = spec_f2h (a);
    VF_ASSERT (r < 0x7c00u, "finite");
    double x  = (double) vf_u2f (a);
    double v0 = (double) vf_u2f (spec_h2f (r));
    double d0 = x > v0 ? x - v0 : v0 - x;
    /* upper neighbour; for r == 0x7bff it is 65536 = 2^16, the value the format would
       have with one more exponent */
    double vu = (r == 0x7bffu) ? 65536.0 : (double) vf_u2f (spec_h2f ((uint16_t) (r + 1)));
    double du = vu - x;
    VF_ASSERT (d0 <= du, "upper neighbour not closer");
    VF_ASSERT (!(d0 == du) || (r & 1u) == 0, "tie with upper neighbour goes to even");
    if (r > 0)
    {
        double vl = (double) vf_u2f (spec_h2f ((uint16_t) (r - 1)));
        double dl = x - vl;
        VF_ASSERT (d0 <= dl, "lower neighbour not closer");
        VF_ASSERT (!(d0 == dl) || (r & 1u) == 0, "tie with lower neighbour goes to even");
    }
    VF_END ();
}
