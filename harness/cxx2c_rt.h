/* Runtime conventions of cxx2c-extracted code (see DESIGN.md 3.2). */
#ifndef CXX2C_RT_H
#define CXX2C_RT_H
#include <stdint.h>
#include <stddef.h>
#include <string.h>
#include <stdlib.h>
#include <math.h>

/* ---- exceptions: throw E(...) becomes { cxx2c_thrown = CXX2C_E_<E>; return zero; } ---- */
enum
{
    CXX2C_E_none = 0,
    CXX2C_E_std_domain_error,
    CXX2C_E_std_invalid_argument,
    CXX2C_E_std_logic_error,
    CXX2C_E_std_out_of_range,
    CXX2C_E_std_runtime_error,
    CXX2C_E_std_overflow_error,
    CXX2C_E_std_length_error,
    CXX2C_E_boost_python_error_already_set,
    CXX2C_E_rethrow
};
#ifndef CXX2C_THROWN_DEFINED
#define CXX2C_THROWN_DEFINED
static int cxx2c_thrown;
#endif

/* ---- library models used by the PyImath extraction (DESIGN 3.2): ownership / reference counts are dropped ---- */
struct cxx2c_shared_array_ulong { unsigned long *px; };   /* boost::shared_array<size_t> */
struct cxx2c_any { void *p; };                            /* boost::any (opaque handle) */
static inline unsigned long *cxx2c_sa_index (struct cxx2c_shared_array_ulong *a, long i) { return &a->px[i]; }
static inline unsigned long *cxx2c_sa_get (struct cxx2c_shared_array_ulong *a) { return a->px; }
#define CXX2C_PyExc_IndexError 1
#define CXX2C_PyExc_TypeError 2
#ifndef CXX2C_PYERR_DEFINED
#define CXX2C_PYERR_DEFINED
static int cxx2c_pyerr;
#endif
static inline void cxx2c_PyErr_SetString (int kind, const char *msg) { (void) msg; cxx2c_pyerr = kind; }
/* boost::python::throw_error_already_set(): throws error_already_set */
#define cxx2c_throw_error_already_set() (cxx2c_thrown = CXX2C_E_boost_python_error_already_set)
#ifdef VF_NATIVE
#define cxx2c_assert_fail(e, f, l, fn) ((void) 0)
#else
#define cxx2c_assert_fail(e, f, l, fn) __CPROVER_assert (0, "assert() in the extracted code")
#endif

/* ---- ghost model of std::ostream for the stream-output clause of C04: the stream is a log of insertions ---- */
#define CXX2C_OS_MAX 96
enum { CXX2C_TOK_CHAR = 1, CXX2C_TOK_STR, CXX2C_TOK_F32, CXX2C_TOK_F64, CXX2C_TOK_INT, CXX2C_TOK_SETW };
struct cxx2c_ostream { int n; int kind[CXX2C_OS_MAX]; unsigned long val[CXX2C_OS_MAX]; };
struct cxx2c_setw { int w; };
static inline struct cxx2c_ostream *cxx2c_os_put (struct cxx2c_ostream *os, int kind, unsigned long val)
{
    if (os->n < CXX2C_OS_MAX) { os->kind[os->n] = kind; os->val[os->n] = val; }
    os->n++;
    return os;
}
static inline struct cxx2c_ostream *cxx2c_os_char (struct cxx2c_ostream *os, char c) { return cxx2c_os_put (os, CXX2C_TOK_CHAR, (unsigned long) (unsigned char) c); }
/* a string literal is logged character by character, so "(" and '(' are the same output */
static inline struct cxx2c_ostream *cxx2c_os_str (struct cxx2c_ostream *os, const char *s) { for (int i = 0; s[i] && i < 8; i++) cxx2c_os_put (os, CXX2C_TOK_CHAR, (unsigned long) (unsigned char) s[i]); return os; }
static inline struct cxx2c_ostream *cxx2c_os_float (struct cxx2c_ostream *os, float x) { union { float f; unsigned u; } v; v.f = x; return cxx2c_os_put (os, CXX2C_TOK_F32, v.u); }
static inline struct cxx2c_ostream *cxx2c_os_double (struct cxx2c_ostream *os, double x) { union { double f; unsigned long u; } v; v.f = x; return cxx2c_os_put (os, CXX2C_TOK_F64, v.u); }
static inline struct cxx2c_ostream *cxx2c_os_long (struct cxx2c_ostream *os, long x) { return cxx2c_os_put (os, CXX2C_TOK_INT, (unsigned long) x); }
static inline struct cxx2c_setw cxx2c_setw_make (int w) { struct cxx2c_setw r; r.w = w; return r; }
static inline struct cxx2c_ostream *cxx2c_os_setw (struct cxx2c_ostream *os, struct cxx2c_setw w) { return cxx2c_os_put (os, CXX2C_TOK_SETW, (unsigned long) w.w); }
#ifndef VF_NATIVE
int __CPROVER_uninterpreted_ios_flags (int);
long __CPROVER_uninterpreted_ios_precision (int);
#ifdef CXX2C_IOS_FLAGS_VALUE
#define CXX2C_IOS_FLAGS(os) (CXX2C_IOS_FLAGS_VALUE)   /* one unit per format-flag case (fixed / not fixed) */
#else
#define CXX2C_IOS_FLAGS(os) __CPROVER_uninterpreted_ios_flags (0)
#endif
#define CXX2C_IOS_PREC(os) __CPROVER_uninterpreted_ios_precision (0)
#else
#define CXX2C_IOS_FLAGS(os) 0
#define CXX2C_IOS_PREC(os) 6
#endif
static inline int cxx2c_ios_flags (void *os) { (void) os; return CXX2C_IOS_FLAGS (os); }
static inline int cxx2c_ios_setflags (void *os, int f) { (void) os; (void) f; return CXX2C_IOS_FLAGS (os); }
static inline int cxx2c_ios_setf (void *os, int f) { (void) os; (void) f; return CXX2C_IOS_FLAGS (os); }
static inline long cxx2c_ios_precision (void *os) { (void) os; return CXX2C_IOS_PREC (os); }

/* element operations of the vectorised kernels (C20): arbitrary pure functions */
#ifndef VF_NATIVE
int __CPROVER_uninterpreted_vfop2 (int, int);
int __CPROVER_uninterpreted_vfop1 (int);
static inline int cxx2c_vfop2 (int *a, int *b) { return __CPROVER_uninterpreted_vfop2 (*a, *b); }
static inline int cxx2c_vfop1 (int *a) { return __CPROVER_uninterpreted_vfop1 (*a); }
#define VFOP2(a, b) __CPROVER_uninterpreted_vfop2 (a, b)
#define VFOP1(a) __CPROVER_uninterpreted_vfop1 (a)
/* in-place element operation  a = vop (a, b)  (operator+= and friends) */
int __CPROVER_uninterpreted_vfvop (int, int);
static inline void cxx2c_vfvop (int *a, int *b) { *a = __CPROVER_uninterpreted_vfvop (*a, *b); }
#define VFVOP(a, b) __CPROVER_uninterpreted_vfvop (a, b)
#endif

/* ---- arithmetic on floating element types: the one place its meaning is chosen ---- */
#if defined(CXX2C_ABS_ARITH) && !defined(VF_NATIVE)
/* mode ABS: + - * / are uninterpreted (congruence; + and * also commutative) */
float  __CPROVER_uninterpreted_addf (float, float);
float  __CPROVER_uninterpreted_subf (float, float);
float  __CPROVER_uninterpreted_mulf (float, float);
float  __CPROVER_uninterpreted_divf (float, float);
float  __CPROVER_uninterpreted_negf (float);
double __CPROVER_uninterpreted_addd (double, double);
double __CPROVER_uninterpreted_subd (double, double);
double __CPROVER_uninterpreted_muld (double, double);
double __CPROVER_uninterpreted_divd (double, double);
double __CPROVER_uninterpreted_negd (double);
/* -DCXX2C_ABS_COMM (the re-check of a refuted ABS obligation, core.py): + and * are COMMUTATIVE uninterpreted functions (IEEE addition and multiplication are commutative bit for bit, NaN payloads aside), so
 * that a harmless a*b -> b*a edit in one of two copies is not reported: the operands are put into a canonical order (by value, -0 before +0)
 * before the uninterpreted symbol is applied, and a NaN operand gives that NaN (all NaNs are identified by FEQ). */
#define CXX2C_QNANF (0.0f / 0.0f)
#define CXX2C_QNAND (0.0 / 0.0)
#define CXX2C_COMM(name, T, uf, sgn, qnan)                                                                  \
    static inline T name (T a, T b)                                                                         \
    {                                                                                                       \
        if (a != a || b != b) return qnan; /* one canonical NaN: payloads never reach a symbol */           \
        _Bool swap = (b < a) || (a == b && sgn (b) && !sgn (a));                                            \
        return swap ? uf (b, a) : uf (a, b);                                                                \
    }
/* - and / (not commutative) and the one-argument libm symbols only get the NaN rule under CXX2C_ABS_COMM */
#define CXX2C_NANPROP2(name, T, uf, qnan) static inline T name (T a, T b) { if (a != a || b != b) return qnan; return uf (a, b); }
CXX2C_COMM (cxx2c_abs_addf, float, __CPROVER_uninterpreted_addf, __CPROVER_signf, CXX2C_QNANF)
CXX2C_COMM (cxx2c_abs_mulf, float, __CPROVER_uninterpreted_mulf, __CPROVER_signf, CXX2C_QNANF)
CXX2C_COMM (cxx2c_abs_addd, double, __CPROVER_uninterpreted_addd, __CPROVER_signd, CXX2C_QNAND)
CXX2C_COMM (cxx2c_abs_muld, double, __CPROVER_uninterpreted_muld, __CPROVER_signd, CXX2C_QNAND)
CXX2C_NANPROP2 (cxx2c_abs_subf, float, __CPROVER_uninterpreted_subf, CXX2C_QNANF)
CXX2C_NANPROP2 (cxx2c_abs_divf, float, __CPROVER_uninterpreted_divf, CXX2C_QNANF)
CXX2C_NANPROP2 (cxx2c_abs_subd, double, __CPROVER_uninterpreted_subd, CXX2C_QNAND)
CXX2C_NANPROP2 (cxx2c_abs_divd, double, __CPROVER_uninterpreted_divd, CXX2C_QNAND)
#ifdef CXX2C_ABS_COMM
#define IM_ADD(T, a, b) _Generic ((T) 0, float : cxx2c_abs_addf ((float) (a), (float) (b)), double : cxx2c_abs_addd ((double) (a), (double) (b)), default : ((a) + (b)))
#else
#define IM_ADD(T, a, b) _Generic ((T) 0, float : __CPROVER_uninterpreted_addf ((float) (a), (float) (b)), double : __CPROVER_uninterpreted_addd ((double) (a), (double) (b)), default : ((a) + (b)))
#endif
#ifdef CXX2C_ABS_COMM
#define IM_SUB(T, a, b) _Generic ((T) 0, float : cxx2c_abs_subf ((float) (a), (float) (b)), double : cxx2c_abs_subd ((double) (a), (double) (b)), default : ((a) - (b)))
#else
#define IM_SUB(T, a, b) _Generic ((T) 0, float : __CPROVER_uninterpreted_subf ((float) (a), (float) (b)), double : __CPROVER_uninterpreted_subd ((double) (a), (double) (b)), default : ((a) - (b)))
#endif
#ifdef CXX2C_ABS_COMM
#define IM_MUL(T, a, b) _Generic ((T) 0, float : cxx2c_abs_mulf ((float) (a), (float) (b)), double : cxx2c_abs_muld ((double) (a), (double) (b)), default : ((a) * (b)))
#else
#define IM_MUL(T, a, b) _Generic ((T) 0, float : __CPROVER_uninterpreted_mulf ((float) (a), (float) (b)), double : __CPROVER_uninterpreted_muld ((double) (a), (double) (b)), default : ((a) * (b)))
#endif
#ifdef CXX2C_ABS_COMM
#define IM_DIV(T, a, b) _Generic ((T) 0, float : cxx2c_abs_divf ((float) (a), (float) (b)), double : cxx2c_abs_divd ((double) (a), (double) (b)), default : ((a) / (b)))
#else
#define IM_DIV(T, a, b) _Generic ((T) 0, float : __CPROVER_uninterpreted_divf ((float) (a), (float) (b)), double : __CPROVER_uninterpreted_divd ((double) (a), (double) (b)), default : ((a) / (b)))
#endif
/* negation stays concrete: it is exact (a sign flip) and the code compares against -max() */
#define IM_NEG(T, a) (-(a))
#else
#define IM_ADD(T, a, b) ((a) + (b))
#define IM_SUB(T, a, b) ((a) - (b))
#define IM_MUL(T, a, b) ((a) * (b))
#define IM_DIV(T, a, b) ((a) / (b))
#define IM_NEG(T, a) (-(a))
#endif

/* ---- libm and builtins ---- */
#if defined(CXX2C_ABS_LIBM) && !defined(VF_NATIVE)
/* libm is abstract: every function an uninterpreted symbol (same argument => same
 * result).  The only axioms are those assumed here (DESIGN.md section 8). */
float  __CPROVER_uninterpreted_sqrtf (float);
double __CPROVER_uninterpreted_sqrt (double);
static inline float cxx2c_sqrtf (float x)
{
    float r = __CPROVER_uninterpreted_sqrtf (x);
#ifndef CXX2C_NO_SQRT_AXIOMS
    __CPROVER_assume (!(x == 0.0f) || r == x);                 /* A1 sqrt(+-0) = +-0 */
    __CPROVER_assume (!(x > 0.0f) || r > 0.0f);                /* A2 */
    __CPROVER_assume (!(x >= 1.0f) || (r >= 1.0f && r <= x));  /* A4 */
    __CPROVER_assume (!(x < 0.0f) || r != r);                  /* negative -> NaN */
    __CPROVER_assume (!(x != x) || r != r);
    __CPROVER_assume (!(x >= 0.0f && x <= 3.4028234664e38f) || (r >= 0.0f && r <= 1.8446743e19f)); /* finite in, finite out */
#endif
    return r;
}
static inline double cxx2c_sqrt (double x)
{
    double r = __CPROVER_uninterpreted_sqrt (x);
#ifndef CXX2C_NO_SQRT_AXIOMS
    __CPROVER_assume (!(x == 0.0) || r == x);
    __CPROVER_assume (!(x > 0.0) || r > 0.0);
    __CPROVER_assume (!(x >= 1.0) || (r >= 1.0 && r <= x));
    __CPROVER_assume (!(x < 0.0) || r != r);
    __CPROVER_assume (!(x != x) || r != r);
    __CPROVER_assume (!(x >= 0.0 && x <= 1.7976931348623157e308) || (r >= 0.0 && r <= 1.3407807929942597e154));
#endif
    return r;
}
#ifdef CXX2C_ABS_COMM
#define CXX2C_UF1(name, T) T __CPROVER_uninterpreted_##name (T); static inline T cxx2c_##name (T x) { if (x != x) return (T) (0.0 / 0.0); return __CPROVER_uninterpreted_##name (x); }
#else
#define CXX2C_UF1(name, T) T __CPROVER_uninterpreted_##name (T); static inline T cxx2c_##name (T x) { return __CPROVER_uninterpreted_##name (x); }
#endif
#define CXX2C_UF2(name, T) T __CPROVER_uninterpreted_##name (T, T); static inline T cxx2c_##name (T x, T y) { return __CPROVER_uninterpreted_##name (x, y); }
CXX2C_UF1 (sinf, float) CXX2C_UF1 (sin, double) CXX2C_UF1 (cosf, float) CXX2C_UF1 (cos, double)
CXX2C_UF1 (tanf, float) CXX2C_UF1 (tan, double) CXX2C_UF1 (acosf, float) CXX2C_UF1 (acos, double)
CXX2C_UF1 (asinf, float) CXX2C_UF1 (asin, double) CXX2C_UF1 (atanf, float) CXX2C_UF1 (atan, double)
CXX2C_UF1 (logf, float) CXX2C_UF1 (log, double) CXX2C_UF1 (expf, float) CXX2C_UF1 (exp, double)
CXX2C_UF1 (cbrtf, float) CXX2C_UF1 (cbrt, double) CXX2C_UF1 (log10f, float) CXX2C_UF1 (log10, double)
CXX2C_UF2 (atan2f, float) CXX2C_UF2 (atan2, double) CXX2C_UF2 (powf, float) CXX2C_UF2 (pow, double)
CXX2C_UF2 (fmodf, float) CXX2C_UF2 (fmod, double) CXX2C_UF2 (nextafterf, float) CXX2C_UF2 (nextafter, double)
CXX2C_UF2 (hypotf, float) CXX2C_UF2 (hypot, double)
#else
#define cxx2c_sqrtf sqrtf
#define cxx2c_sqrt sqrt
#define cxx2c_sinf sinf
#define cxx2c_sin sin
#define cxx2c_cosf cosf
#define cxx2c_cos cos
#define cxx2c_tanf tanf
#define cxx2c_tan tan
#define cxx2c_acosf acosf
#define cxx2c_acos acos
#define cxx2c_asinf asinf
#define cxx2c_asin asin
#define cxx2c_atanf atanf
#define cxx2c_atan atan
#define cxx2c_logf logf
#define cxx2c_log log
#define cxx2c_expf expf
#define cxx2c_exp exp
#define cxx2c_cbrtf cbrtf
#define cxx2c_cbrt cbrt
#define cxx2c_log10f log10f
#define cxx2c_log10 log10
#define cxx2c_atan2f atan2f
#define cxx2c_atan2 atan2
#define cxx2c_powf powf
#define cxx2c_pow pow
#define cxx2c_fmodf fmodf
#define cxx2c_fmod fmod
#define cxx2c_nextafterf nextafterf
#define cxx2c_nextafter nextafter
#define cxx2c_hypotf hypotf
#define cxx2c_hypot hypot
#endif
/* RING mode trigonometry: std::cos / std::sin applied to the ring type (libstdc++'s integer overloads, whose double result the
 * library immediately converts back to T) are one uninterpreted ring-valued function each: "the cosine VALUE as a ring element".
 * Natively the real double function is called and the extracted code's own cast converts it, exactly as the C++ does. */
#if defined(CXX2C_RING_TRIG) && !defined(VF_NATIVE)
unsigned __CPROVER_uninterpreted_ringcos (unsigned);
unsigned __CPROVER_uninterpreted_ringsin (unsigned);
static inline unsigned cxx2c_ring_cos (unsigned x) { return __CPROVER_uninterpreted_ringcos (x); }
static inline unsigned cxx2c_ring_sin (unsigned x) { return __CPROVER_uninterpreted_ringsin (x); }
int __CPROVER_uninterpreted_ringcosi (int);
int __CPROVER_uninterpreted_ringsini (int);
/* the int flavour (used where the code negates angles) builds in the only two facts needed, cos even and sin odd:
 * cos(x) = C(x*x), sin(x) = x * S(x*x) with C, S uninterpreted (at x = 1 the two values are still arbitrary ring elements,
 * so an identity proved for all x, C, S is an identity in free cos / sin values) */
static inline int cxx2c_ring_cosi (int x) { return __CPROVER_uninterpreted_ringcosi ((int) ((unsigned) x * (unsigned) x)); }
static inline int cxx2c_ring_sini (int x) { return (int) ((unsigned) x * (unsigned) __CPROVER_uninterpreted_ringsini ((int) ((unsigned) x * (unsigned) x))); }
#else
static inline double cxx2c_ring_cosi (int x) { return cos ((double) x); }
static inline double cxx2c_ring_sini (int x) { return sin ((double) x); }
static inline double cxx2c_ring_cos (unsigned x) { return cos ((double) x); }
static inline double cxx2c_ring_sin (unsigned x) { return sin ((double) x); }
#endif
/* std::numeric_limits<float> members when an extraction leaves them external (RETYPE units replace this file by cxx2c_rt_ring.h,
 * where they are arbitrary ring constants; here - native differential run and replay - they are the real values) */
static inline float cxx2c_limit_float_min (void) { return 1.17549435e-38f; }
static inline float cxx2c_limit_float_max (void) { return 3.40282347e+38f; }
static inline float cxx2c_limit_float_lowest (void) { return -3.40282347e+38f; }
static inline float cxx2c_limit_float_epsilon (void) { return 1.1920929e-07f; }
/* exact functions: kept concrete in every mode */
static inline float  cxx2c_fabsf (float x) { return x < 0.0f ? -x : (x == 0.0f ? 0.0f : x); }
static inline double cxx2c_fabs (double x) { return x < 0.0 ? -x : (x == 0.0 ? 0.0 : x); }
static inline int    cxx2c_abs (int x) { return x < 0 ? -x : x; }
static inline long   cxx2c_labs (long x) { return x < 0 ? -x : x; }
static inline long long cxx2c_llabs (long long x) { return x < 0 ? -x : x; }
#define cxx2c_isnan(x) ((x) != (x))
#define cxx2c_isinf(x) ((x) == (x) && ((x) - (x)) != ((x) - (x)))
#define cxx2c_isfinite(x) (((x) - (x)) == ((x) - (x)))
#define cxx2c_floorf floorf
#define cxx2c_floor floor
#define cxx2c_ceilf ceilf
#define cxx2c_ceil ceil
#define cxx2c_truncf truncf
#define cxx2c_trunc trunc
#define cxx2c_fminf fminf
#define cxx2c_fmin fmin
#define cxx2c_fmaxf fmaxf
#define cxx2c_fmax fmax
#define cxx2c_copysignf copysignf
#define cxx2c_copysign copysign
#define cxx2c_huge_valf() (__builtin_huge_valf ())
#define cxx2c_huge_val() (__builtin_huge_val ())
#define cxx2c_inff() (__builtin_inff ())
#define cxx2c_inf() (__builtin_inf ())
#define cxx2c_nanf(s) (__builtin_nanf (""))
#define cxx2c_nan(s) (__builtin_nan (""))
#define cxx2c_clz(x) (__builtin_clz (x))
#define cxx2c_memcpy memcpy
#define cxx2c_memset memset

#endif
