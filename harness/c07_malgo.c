/* C07: matrix-decomposition functions with an exc flag (ImathMatrixAlgo.h), T = float: the checked form (exc = true) throws
 * std::domain_error exactly when the unchecked form (exc = false) reports failure (returns false / hands back its input), and whenever
 * it returns, every result is identical to the unchecked form's - i.e. the flag is threaded through every internal call and changes
 * nothing but the way failure is reported.  Arithmetic and libm uninterpreted (mode ABS). */
#include "vf.h"
#include "c04_spec.h"
#include "c07a_names.h"
#ifdef VF_NATIVE
#include "c07ax.fwd.c"
#else
#include "c07ax.c"
#endif
typedef struct Matrix44_float M44;
typedef struct Matrix33_float M33;
typedef struct Vec3_float V3;
typedef struct Vec2_float V2;
#define V3EQ(a, b) (FEQ ((a).x, (b).x) && FEQ ((a).y, (b).y) && FEQ ((a).z, (b).z))
#define V2EQ(a, b) (FEQ ((a).x, (b).x) && FEQ ((a).y, (b).y))
static inline _Bool m44eq (M44 *a, M44 *b) { for (int i = 0; i < 4; i++) for (int j = 0; j < 4; j++) if (!FEQ (a->x[i][j], b->x[i][j])) return 0; return 1; }
static inline _Bool m33eq (M33 *a, M33 *b) { for (int i = 0; i < 3; i++) for (int j = 0; j < 3; j++) if (!FEQ (a->x[i][j], b->x[i][j])) return 0; return 1; }
#define IN_M44(m, in) VF_IN_ARR (float, in, 16); M44 m; for (int vi = 0; vi < 16; vi++) m.x[vi / 4][vi % 4] = in[vi]
#define IN_M33(m, in) VF_IN_ARR (float, in, 9); M33 m; for (int vi = 0; vi < 9; vi++) m.x[vi / 3][vi % 3] = in[vi]
#define IN_V3(v, in) VF_IN_ARR (float, in, 3); V3 v = { in[0], in[1], in[2] }
#define IN_V2(v, in) VF_IN_ARR (float, in, 2); V2 v = { in[0], in[1] }
/* the three clauses, given: thrown (checked run), rc / ru (return values or "succeeded"), same (all results identical) */
#define CLAUSES(what, thrown, rc, ru, same)                                                                                              \
    VF_ASSERT ((thrown) == 0 || (thrown) == CXX2C_E_std_domain_error, what ": the exception is std::domain_error");                       \
    VF_ASSERT (((thrown) != 0) == !(ru), what ": the checked form throws exactly when the unchecked form reports failure");               \
    VF_ASSERT ((thrown) != 0 || ((rc) == (ru) && (same)), what ": whenever the checked form returns, its results are identical to the unchecked form's")

void h_zeroScale3 (void)
{
    VF_IN (float, in_s); IN_V3 (row, in_row);
    cxx2c_thrown = 0; float s1 = in_s; _Bool rc = F_zeroScale3 (&s1, &row, 1); int th = cxx2c_thrown;
    cxx2c_thrown = 0; float s2 = in_s; _Bool ru = F_zeroScale3 (&s2, &row, 0);
    VF_ASSERT (cxx2c_thrown == 0, "checkForZeroScaleInRow(exc = false) never throws");
    CLAUSES ("checkForZeroScaleInRow(Vec3)", th, rc, ru, 1);
    VF_END ();
}
void h_zeroScale2 (void)
{
    VF_IN (float, in_s); IN_V2 (row, in_row);
    cxx2c_thrown = 0; float s1 = in_s; _Bool rc = F_zeroScale2 (&s1, &row, 1); int th = cxx2c_thrown;
    cxx2c_thrown = 0; float s2 = in_s; _Bool ru = F_zeroScale2 (&s2, &row, 0);
    VF_ASSERT (cxx2c_thrown == 0, "checkForZeroScaleInRow(exc = false) never throws");
    CLAUSES ("checkForZeroScaleInRow(Vec2)", th, rc, ru, 1);
    VF_END ();
}
void h_extractAndRemove44 (void)
{
    IN_M44 (m, in_m); IN_V3 (s0, in_s); IN_V3 (h0, in_h);
    M44 m1 = m, m2 = m; V3 s1 = s0, s2 = s0, h1 = h0, h2 = h0;
    cxx2c_thrown = 0; _Bool rc = F_extractAndRemove44 (&m1, &s1, &h1, 1); int th = cxx2c_thrown;
    cxx2c_thrown = 0; _Bool ru = F_extractAndRemove44 (&m2, &s2, &h2, 0);
    VF_ASSERT (cxx2c_thrown == 0, "exc = false never throws");
    CLAUSES ("extractAndRemoveScalingAndShear(Matrix44)", th, rc, ru, m44eq (&m1, &m2) && V3EQ (s1, s2) && V3EQ (h1, h2));
    VF_END ();
}
void h_extractScaling44 (void)
{
    IN_M44 (m, in_m); IN_V3 (s0, in_s);
    V3 s1 = s0, s2 = s0;
    cxx2c_thrown = 0; _Bool rc = F_extractScaling44 (&m, &s1, 1); int th = cxx2c_thrown;
    cxx2c_thrown = 0; _Bool ru = F_extractScaling44 (&m, &s2, 0);
    VF_ASSERT (cxx2c_thrown == 0, "exc = false never throws");
    CLAUSES ("extractScaling(Matrix44)", th, rc, ru, V3EQ (s1, s2));
    VF_END ();
}
void h_extractScalingAndShear44 (void)
{
    IN_M44 (m, in_m); IN_V3 (s0, in_s); IN_V3 (h0, in_h);
    V3 s1 = s0, s2 = s0, h1 = h0, h2 = h0;
    cxx2c_thrown = 0; _Bool rc = F_extractScalingAndShear44 (&m, &s1, &h1, 1); int th = cxx2c_thrown;
    cxx2c_thrown = 0; _Bool ru = F_extractScalingAndShear44 (&m, &s2, &h2, 0);
    VF_ASSERT (cxx2c_thrown == 0, "exc = false never throws");
    CLAUSES ("extractScalingAndShear(Matrix44)", th, rc, ru, V3EQ (s1, s2) && V3EQ (h1, h2));
    VF_END ();
}
void h_removeScalingAndShear44 (void)
{
    IN_M44 (m, in_m);
    M44 m1 = m, m2 = m;
    cxx2c_thrown = 0; _Bool rc = F_removeScalingAndShear44 (&m1, 1); int th = cxx2c_thrown;
    cxx2c_thrown = 0; _Bool ru = F_removeScalingAndShear44 (&m2, 0);
    VF_ASSERT (cxx2c_thrown == 0, "exc = false never throws");
    CLAUSES ("removeScalingAndShear(Matrix44)", th, rc, ru, m44eq (&m1, &m2));
    VF_END ();
}
/* the value-returning form reports failure by handing back its input: relate it to removeScalingAndShear's boolean */
void h_sansScalingAndShear44 (void)
{
    IN_M44 (m, in_m);
    M44 mu = m;
    cxx2c_thrown = 0; M44 r1 = F_sansScalingAndShear44 (&m, 1); int th = cxx2c_thrown;
    cxx2c_thrown = 0; M44 r2 = F_sansScalingAndShear44 (&m, 0);
    VF_ASSERT (cxx2c_thrown == 0, "exc = false never throws");
    _Bool ru = F_removeScalingAndShear44 (&mu, 0);
    CLAUSES ("sansScalingAndShear(Matrix44)", th, 1, ru, m44eq (&r1, &r2));
    VF_ASSERT (ru ? m44eq (&r2, &mu) : m44eq (&r2, &m), "sansScalingAndShear(m, false) is what removeScalingAndShear leaves, or m itself for degenerate input");
    VF_END ();
}
void h_extractAndRemove33 (void)
{
    IN_M33 (m, in_m); IN_V2 (s0, in_s); VF_IN (float, in_h);
    M33 m1 = m, m2 = m; V2 s1 = s0, s2 = s0; float h1 = in_h, h2 = in_h;
    cxx2c_thrown = 0; _Bool rc = F_extractAndRemove33 (&m1, &s1, &h1, 1); int th = cxx2c_thrown;
    cxx2c_thrown = 0; _Bool ru = F_extractAndRemove33 (&m2, &s2, &h2, 0);
    VF_ASSERT (cxx2c_thrown == 0, "exc = false never throws");
    CLAUSES ("extractAndRemoveScalingAndShear(Matrix33)", th, rc, ru, m33eq (&m1, &m2) && V2EQ (s1, s2) && FEQ (h1, h2));
    VF_END ();
}
void h_removeScalingAndShear33 (void)
{
    IN_M33 (m, in_m);
    M33 m1 = m, m2 = m;
    cxx2c_thrown = 0; _Bool rc = F_removeScalingAndShear33 (&m1, 1); int th = cxx2c_thrown;
    cxx2c_thrown = 0; _Bool ru = F_removeScalingAndShear33 (&m2, 0);
    VF_ASSERT (cxx2c_thrown == 0, "exc = false never throws");
    CLAUSES ("removeScalingAndShear(Matrix33)", th, rc, ru, m33eq (&m1, &m2));
    VF_END ();
}
