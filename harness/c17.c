/* C17: scalar utilities (ImathFun.h / ImathFun.cpp) and packed colours (ImathColorAlgo.h) */
#include "vf.h"
#include "c04_spec.h"
#include "c17_names.h"
#ifdef VF_NATIVE
#include "c17x.fwd.c"
#else
#include "c17x.c"
#endif
#include <math.h>
#define NNF(x) ((x) == (x))

/* ---- floor / ceil / trunc: for |x| < 2^31 the mathematical functions (int -> double is exact) ---- */
#define INR(x) ((x) > -2147483648.0 && (x) < 2147483648.0)
/* double arguments: additionally the mathematical result must be representable in int (ceil(2147483647.5) is not) */
#define INR_C(x) ((x) > -2147483648.0 && (x) <= 2147483647.0)
#define INR_F(x) ((x) >= -2147483647.0 && (x) < 2147483648.0)
#define FLOOR_OK(r, x) ((double) (r) <= (double) (x) && (double) (x) < (double) (r) + 1.0)
#define CEIL_OK(r, x) ((double) (r) - 1.0 < (double) (x) && (double) (x) <= (double) (r))
#define TRUNC_OK(r, x) ((x) >= 0 ? FLOOR_OK (r, x) : CEIL_OK (r, x))
int F_floor_f (float x) __CPROVER_requires (INR (x)) __CPROVER_assigns () __CPROVER_ensures (FLOOR_OK (__CPROVER_return_value, x));
int F_ceil_f (float x) __CPROVER_requires (INR (x)) __CPROVER_assigns () __CPROVER_ensures (CEIL_OK (__CPROVER_return_value, x));
int F_trunc_f (float x) __CPROVER_requires (INR (x)) __CPROVER_assigns () __CPROVER_ensures (TRUNC_OK (__CPROVER_return_value, x));
int F_floor_d (double x) __CPROVER_requires (INR_F (x)) __CPROVER_assigns () __CPROVER_ensures (FLOOR_OK (__CPROVER_return_value, x));
int F_ceil_d (double x) __CPROVER_requires (INR_C (x)) __CPROVER_assigns () __CPROVER_ensures (CEIL_OK (__CPROVER_return_value, x));
int F_trunc_d (double x) __CPROVER_requires (INR_F (x) && INR_C (x)) __CPROVER_assigns () __CPROVER_ensures (TRUNC_OK (__CPROVER_return_value, x));

/* ---- abs sign cmp cmpt iszero equal clamp ---- */
float F_abs_f (float a) __CPROVER_assigns () __CPROVER_ensures (!NNF (a) ? !NNF (__CPROVER_return_value) : (__CPROVER_return_value >= 0 && (__CPROVER_return_value == a || __CPROVER_return_value == -a)));
int F_abs_i (int a) __CPROVER_requires (a != (-2147483647 - 1)) __CPROVER_assigns () __CPROVER_ensures (__CPROVER_return_value >= 0 && (__CPROVER_return_value == a || __CPROVER_return_value == -a));
int F_sign_f (float a) __CPROVER_assigns () __CPROVER_ensures (__CPROVER_return_value == (a > 0 ? 1 : (a < 0 ? -1 : 0)));
int F_sign_i (int a) __CPROVER_assigns () __CPROVER_ensures (__CPROVER_return_value == (a > 0 ? 1 : (a < 0 ? -1 : 0)));
/* cmp: the order of a and b (for ints where a-b does not overflow) */
int F_cmp_i (int a, int b) __CPROVER_requires (!__CPROVER_overflow_minus (a, b)) __CPROVER_assigns () __CPROVER_ensures (__CPROVER_return_value == (a > b ? 1 : (a < b ? -1 : 0)));
int F_cmp_f (float a, float b) __CPROVER_requires (NNF (a) && NNF (b) && (a) >= -3.4028234664e38f && (a) <= 3.4028234664e38f && (b) >= -3.4028234664e38f && (b) <= 3.4028234664e38f) __CPROVER_assigns ()
    __CPROVER_ensures (__CPROVER_return_value == (a > b ? 1 : (a < b ? -1 : 0)));
int F_cmpt_i (int a, int b, int t) __CPROVER_requires (!__CPROVER_overflow_minus (a, b) && a - b != (-2147483647 - 1)) __CPROVER_assigns ()
    __CPROVER_ensures (__CPROVER_return_value == (((a - b < 0 ? b - a : a - b) <= t) ? 0 : (a > b ? 1 : (a < b ? -1 : 0))));
_Bool F_iszero_i (int a, int t) __CPROVER_requires (a != (-2147483647 - 1)) __CPROVER_assigns () __CPROVER_ensures (__CPROVER_return_value == ((a < 0 ? -a : a) <= t));
#define FABS(x) ((x) < 0 ? -(x) : (x))
_Bool F_iszero_f (float a, float t) __CPROVER_assigns () __CPROVER_ensures (__CPROVER_return_value == (FABS (a) <= t));
_Bool F_equal_i (int a, int b, int t) __CPROVER_requires (!__CPROVER_overflow_minus (a, b) && a - b != (-2147483647 - 1)) __CPROVER_assigns ()
    __CPROVER_ensures (__CPROVER_return_value == ((a - b < 0 ? b - a : a - b) <= t));
#define CLAMP_OK(r, a, l, h) (((r) == (a) || (r) == (l) || (r) == (h)) && (!((l) <= (h)) || ((l) <= (r) && (r) <= (h))) && (!((l) <= (a) && (a) <= (h)) || (r) == (a)))
float F_clamp_f (float a, float l, float h) __CPROVER_requires (NNF (a) && NNF (l) && NNF (h)) __CPROVER_assigns () __CPROVER_ensures (CLAMP_OK (__CPROVER_return_value, a, l, h));
int F_clamp_i (int a, int l, int h) __CPROVER_assigns () __CPROVER_ensures (CLAMP_OK (__CPROVER_return_value, a, l, h));

/* ---- lerp / ulerp endpoints; lerpfactor never overflows ---- */
#define FINF(x) ((x) >= -3.4028234664e38f && (x) <= 3.4028234664e38f)
float F_lerp_f (float a, float b, float t) __CPROVER_requires (FINF (a) && FINF (b)) __CPROVER_assigns ()
    __CPROVER_ensures (!(t == 0.0f) || __CPROVER_return_value == a) __CPROVER_ensures (!(t == 1.0f) || __CPROVER_return_value == b);
float F_ulerp_f (float a, float b, float t) __CPROVER_requires (FINF (a) && FINF (b) && FINF (a - b)) __CPROVER_assigns ()
    __CPROVER_ensures (!(t == 0.0f) || __CPROVER_return_value == a); /* at t == 1 the result is a + (b - a), equal to b only up to rounding */
float F_lerpfactor_f (float m, float a, float b) __CPROVER_requires (FINF (m) && FINF (a) && FINF (b) && FINF (b - a) && FINF (m - a)) __CPROVER_assigns ()
    __CPROVER_ensures (FINF (__CPROVER_return_value))                                  /* returns 0 instead of overflowing */
    __CPROVER_ensures (!(a == b) || __CPROVER_return_value == 0.0f)
    __CPROVER_ensures (__CPROVER_return_value == 0.0f || __CPROVER_return_value == (m - a) / (b - a));

/* ---- divs mods divp modp ---- */
#define DM_PRE(x, y) ((y) != 0 && (x) != (-2147483647 - 1) && (y) != (-2147483647 - 1))
int F_divs (int x, int y) __CPROVER_requires (DM_PRE (x, y)) __CPROVER_assigns () __CPROVER_ensures (__CPROVER_return_value == x / y);          /* C's / truncates */
int F_mods (int x, int y) __CPROVER_requires (DM_PRE (x, y)) __CPROVER_assigns () __CPROVER_ensures (__CPROVER_return_value == x % y);
int F_modp (int x, int y) __CPROVER_requires (DM_PRE (x, y)) __CPROVER_assigns ()
    __CPROVER_ensures (0 <= __CPROVER_return_value && __CPROVER_return_value < (y < 0 ? -y : y))
    __CPROVER_ensures ((x - __CPROVER_return_value) % y == 0);
int F_divp (int x, int y) __CPROVER_requires (DM_PRE (x, y)) __CPROVER_assigns ()
    /* floor division: q = trunc quotient, minus one when the remainder is negative (y>0) / plus one (y<0) */
    __CPROVER_ensures (__CPROVER_return_value == (x % y >= 0 ? x / y : (y > 0 ? x / y - 1 : x / y + 1)));

/* ---- finitef / finited ---- */
_Bool F_finitef (float f) __CPROVER_assigns () __CPROVER_ensures (__CPROVER_return_value == !(isinf (f) || isnan (f)));
_Bool F_finited (double d) __CPROVER_assigns () __CPROVER_ensures (__CPROVER_return_value == !(isinf (d) || isnan (d)));

/* ---- succ / pred: wrappers around nextafter (libm, abstract): infinities and NaN unchanged, finite values forwarded in the right direction ---- */
float F_succf (float f) __CPROVER_assigns () __CPROVER_ensures ((isinf (f) || isnan (f)) ? FEQ (__CPROVER_return_value, f) : FEQ (__CPROVER_return_value, cxx2c_nextafterf (f, INFINITY)));
float F_predf (float f) __CPROVER_assigns () __CPROVER_ensures ((isinf (f) || isnan (f)) ? FEQ (__CPROVER_return_value, f) : FEQ (__CPROVER_return_value, cxx2c_nextafterf (f, -INFINITY)));
double F_succd (double f) __CPROVER_assigns () __CPROVER_ensures ((isinf (f) || isnan (f)) ? FEQ (__CPROVER_return_value, f) : FEQ (__CPROVER_return_value, cxx2c_nextafter (f, (double) INFINITY)));
double F_predd (double f) __CPROVER_assigns () __CPROVER_ensures ((isinf (f) || isnan (f)) ? FEQ (__CPROVER_return_value, f) : FEQ (__CPROVER_return_value, cxx2c_nextafter (f, -(double) INFINITY)));

/* ------------------------------------------------------------------ harnesses */
#define H1(name, T, RT, post) void h_##name (void) { VF_IN (T, in_x); RT r = F_##name (in_x); VF_POST (post, #name); (void) r; VF_END (); }
#define H1R(name, T, RT, pre, post) void h_##name (void) { VF_IN (T, in_x); VF_ASSUME (pre); RT r = F_##name (in_x); VF_POST (post, #name); (void) r; VF_END (); }
H1R (floor_f, float, int, INR (in_x), FLOOR_OK (r, in_x))
H1R (ceil_f, float, int, INR (in_x), CEIL_OK (r, in_x))
H1R (trunc_f, float, int, INR (in_x), TRUNC_OK (r, in_x))
H1R (floor_d, double, int, INR_F (in_x), FLOOR_OK (r, in_x))
H1R (ceil_d, double, int, INR_C (in_x), CEIL_OK (r, in_x))
H1R (trunc_d, double, int, INR_F (in_x) && INR_C (in_x), TRUNC_OK (r, in_x))
H1 (abs_f, float, float, !NNF (in_x) ? !NNF (r) : (r >= 0 && (r == in_x || r == -in_x)))
H1R (abs_i, int, int, in_x != (-2147483647 - 1), r >= 0 && (r == in_x || r == -in_x))
H1 (sign_f, float, int, r == (in_x > 0 ? 1 : (in_x < 0 ? -1 : 0)))
H1 (sign_i, int, int, r == (in_x > 0 ? 1 : (in_x < 0 ? -1 : 0)))
H1 (finitef, float, _Bool, r == !(isinf (in_x) || isnan (in_x)))
H1 (finited, double, _Bool, r == !(isinf (in_x) || isnan (in_x)))
H1 (succf, float, float, (isinf (in_x) || isnan (in_x)) ? FEQ (r, in_x) : r > in_x)
H1 (predf, float, float, (isinf (in_x) || isnan (in_x)) ? FEQ (r, in_x) : r < in_x)
H1 (succd, double, double, (isinf (in_x) || isnan (in_x)) ? FEQ (r, in_x) : r > in_x)
H1 (predd, double, double, (isinf (in_x) || isnan (in_x)) ? FEQ (r, in_x) : r < in_x)
#ifdef VF_BOUND
#define VF_BND2 VF_ASSUME (in_a > -VF_BOUND && in_a < VF_BOUND && in_b > -VF_BOUND && in_b < VF_BOUND)
#else
#define VF_BND2 do { } while (0)
#endif
#define H2(name, T, RT, pre, post) void h_##name (void) { VF_IN (T, in_a); VF_IN (T, in_b); VF_ASSUME (pre); VF_BND2; RT r = F_##name (in_a, in_b); VF_POST (post, #name); (void) r; VF_END (); }
#define H3(name, T, RT, pre, post) void h_##name (void) { VF_IN (T, in_a); VF_IN (T, in_b); VF_IN (T, in_c); VF_ASSUME (pre); RT r = F_##name (in_a, in_b, in_c); VF_POST (post, #name); (void) r; VF_END (); }
H2 (cmp_i, int, int, !__builtin_sub_overflow_p (in_a, in_b, (int) 0), r == (in_a > in_b ? 1 : (in_a < in_b ? -1 : 0)))
H2 (cmp_f, float, int, NNF (in_a) && NNF (in_b) && FINF (in_a) && FINF (in_b), r == (in_a > in_b ? 1 : (in_a < in_b ? -1 : 0)))
H3 (cmpt_i, int, int, !__builtin_sub_overflow_p (in_a, in_b, (int) 0) && in_a - in_b != (-2147483647 - 1), r == (((in_a - in_b < 0 ? in_b - in_a : in_a - in_b) <= in_c) ? 0 : (in_a > in_b ? 1 : (in_a < in_b ? -1 : 0))))
H2 (iszero_i, int, _Bool, in_a != (-2147483647 - 1), r == ((in_a < 0 ? -in_a : in_a) <= in_b))
H2 (iszero_f, float, _Bool, 1, r == (FABS (in_a) <= in_b))
H3 (equal_i, int, _Bool, !__builtin_sub_overflow_p (in_a, in_b, (int) 0) && in_a - in_b != (-2147483647 - 1), r == ((in_a - in_b < 0 ? in_b - in_a : in_a - in_b) <= in_c))
H3 (clamp_f, float, float, NNF (in_a) && NNF (in_b) && NNF (in_c), CLAMP_OK (r, in_a, in_b, in_c))
H3 (clamp_i, int, int, 1, CLAMP_OK (r, in_a, in_b, in_c))
H3 (lerp_f, float, float, FINF (in_a) && FINF (in_b), (!(in_c == 0.0f) || r == in_a) && (!(in_c == 1.0f) || r == in_b))
H3 (ulerp_f, float, float, FINF (in_a) && FINF (in_b) && FINF (in_a - in_b), (!(in_c == 0.0f) || r == in_a))
H3 (lerpfactor_f, float, float, FINF (in_a) && FINF (in_b) && FINF (in_c) && FINF (in_c - in_b) && FINF (in_a - in_b), FINF (r) && (!(in_b == in_c) || r == 0.0f))
H2 (divs, int, int, DM_PRE (in_a, in_b), r == in_a / in_b)
H2 (mods, int, int, DM_PRE (in_a, in_b), r == in_a % in_b)
H2 (modp, int, int, DM_PRE (in_a, in_b), 0 <= r && r < (in_b < 0 ? -in_b : in_b) && (in_a - r) % in_b == 0)
H2 (divp, int, int, DM_PRE (in_a, in_b), r == (in_a % in_b >= 0 ? in_a / in_b : (in_b > 0 ? in_a / in_b - 1 : in_a / in_b + 1)))
/* lemma from the four contracts: x == y*divs + mods, x == y*divp + modp */
void h_lemma_divmod (void)
{
    VF_IN (int, in_a); VF_IN (int, in_b);
    VF_ASSUME (DM_PRE (in_a, in_b));
#ifdef VF_BOUND
    VF_ASSUME (in_a > -VF_BOUND && in_a < VF_BOUND && in_b > -VF_BOUND && in_b < VF_BOUND);
#endif
    int q = F_divs (in_a, in_b), r = F_mods (in_a, in_b), qp = F_divp (in_a, in_b), rp = F_modp (in_a, in_b);
    VF_ASSERT ((long) in_a == (long) in_b * q + r, "x == y*divs(x,y) + mods(x,y)");
    VF_ASSERT ((long) in_a == (long) in_b * qp + rp, "x == y*divp(x,y) + modp(x,y)");
    VF_END ();
}

/* ---- packed colours: rgb2packed(packed2rgb(p)) preserves every 8-bit channel for float-element colours ---- */
void h_packed_c4f (void)
{
    VF_IN (unsigned, in_p);
    struct Color4_float c; memset (&c, 0, sizeof c);
    F_packed2rgb_c4f (in_p, &c);
    unsigned r = F_rgb2packed_c4f (&c);
    VF_ASSERT (r == in_p, "rgb2packed(packed2rgb(p)) == p for Color4<float>, all 2^32 packed values");
    VF_END ();
}
void h_packed_v3f (void)
{
    VF_IN (unsigned, in_p);
    struct Vec3_float c; memset (&c, 0, sizeof c);
    F_packed2rgb_v3f (in_p, &c);
    unsigned r = F_rgb2packed_v3f (&c);
    VF_ASSERT (r == (in_p | 0xFF000000u), "rgb2packed(packed2rgb(p)) preserves the three colour channels for Vec3<float> (alpha forced opaque)");
    VF_END ();
}
