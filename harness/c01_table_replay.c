/* native replay of the table lemma: the real table (as half.cpp defines it)
 * against the spec, entry by entry */
#include <stdio.h>
#include "spec_half.h"
#include "half.h"
#include "half_table.inc"
int main (void)
{
    int bad = 0;
    for (unsigned y = 0; y < 65536; y++)
        if (imath_half_to_float_table[y].i != spec_h2f ((uint16_t) y))
        {
            if (bad < 5)
                printf ("REPRODUCED on real code: toFloat.h entry 0x%04x is 0x%08x, binary16 value is 0x%08x\n", y,
                        imath_half_to_float_table[y].i, spec_h2f ((uint16_t) y));
            bad++;
        }
    if (!bad) printf ("not reproduced: table equals spec\n");
    return bad ? 1 : 0;
}
