/* C15 (the clauses that are algebraic identities): Plane3, Line3 (point forms), project / orthogonal / reflect.
 * RETYPE: the extracted text of the FLOAT instantiation is evaluated over the commutative ring Z/2^32 (harness/cxx2c_rt_ring.h):
 * division is multiplication by an uninterpreted inverse, sqrt is uninterpreted.  Clauses that hold only for unit vectors are stated
 * homogeneously in N = n.n (they specialise to the property at N = 1); clauses that need b * (1/b) = 1 carry the residual factor
 * (1 - b*inv(b)) explicitly (zero in a field).  Natively (replay) the same harness runs the real float code with a tolerance. */
#include <stdint.h>
#include <stddef.h>
#include <string.h>
#include <stdlib.h>
#include <math.h>
#include "vf.h"
#include "c15_names.h"
#ifdef VF_NATIVE
#include "c15x.fwd.c"
typedef float EL;
#define IN_EL(name) VF_IN (float, name)
#define IN_EL_ARR(name, n) VF_IN_ARR (float, name, n)
#define REQ(a, b) (fabs ((double) (a) - (double) (b)) <= 1e-3 * (1.0 + fabs ((double) (a)) + fabs ((double) (b))))
#define RR_INV(b) (1.0f / (b))
#define SANE(x) VF_ASSUME ((x) == (x) && fabsf (x) <= 100.0f)
#else
#define CXX2C_RT_H /* the ring runtime replaces cxx2c_rt.h in this translation unit */
#include "cxx2c_rt_ring.h"
#define float int
#define double int
#include "c15x.c"
#undef float
#undef double
typedef int EL;
#define IN_EL(name) VF_IN (int, name)
#define IN_EL_ARR(name, n) VF_IN_ARR (int, name, n)
#define REQ(a, b) ((a) == (b))
#define SANE(x) do { } while (0)
#endif
typedef struct Vec3_float V3;
typedef struct Plane3_float PL;
typedef struct Line3_float LN;
#define IN_V3(v, in) IN_EL_ARR (in, 3); V3 v; v.x = in[0]; v.y = in[1]; v.z = in[2]; SANE (v.x); SANE (v.y); SANE (v.z)
#define DOT(a, b) ((a).x * (b).x + (a).y * (b).y + (a).z * (b).z)
#define VEQX(a, b) ((a).x == (b).x && (a).y == (b).y && (a).z == (b).z)
#define VREQ(a, ex, ey, ez) (REQ ((a).x, ex) && REQ ((a).y, ey) && REQ ((a).z, ez))
#define CROSSX(a, b) ((a).y * (b).z - (a).z * (b).y)
#define CROSSY(a, b) ((a).z * (b).x - (a).x * (b).z)
#define CROSSZ(a, b) ((a).x * (b).y - (a).y * (b).x)
#define PARALLEL(a, b) (REQ (CROSSX (a, b), 0) && REQ (CROSSY (a, b), 0) && REQ (CROSSZ (a, b), 0))
static inline V3 vsub (V3 a, V3 b) { V3 r; r.x = a.x - b.x; r.y = a.y - b.y; r.z = a.z - b.z; return r; }

/* Plane3 through three points / through a point with a normal: zero signed distance to the defining points */
void h_plane_set3 (void)
{
    IN_V3 (p0, in_p0); IN_V3 (p1, in_p1); IN_V3 (p2, in_p2);
    PL pl = { { 0, 0, 0 }, 0 };
    F_plane_set3 (&pl, &p0, &p1, &p2);
    VF_ASSERT (REQ (F_plane_distanceTo (&pl, &p0), 0) && REQ (F_plane_distanceTo (&pl, &p1), 0) && REQ (F_plane_distanceTo (&pl, &p2), 0), "Plane3(p0,p1,p2): zero signed distance to the three defining points");
    VF_END ();
}
void h_plane_setpn (void)
{
    IN_V3 (p, in_p); IN_V3 (n, in_n);
    PL pl = { { 0, 0, 0 }, 0 };
    F_plane_setpn (&pl, &p, &n);
    VF_ASSERT (REQ (F_plane_distanceTo (&pl, &p), 0), "Plane3(point, normal): zero signed distance to the point");
    VF_ASSERT (PARALLEL (pl.normal, n), "Plane3(point, normal): the stored normal is parallel to the given one");
    VF_END ();
}
void h_plane_setnd (void)
{
    IN_V3 (n, in_n); IN_EL (in_d);
    PL pl = { { 0, 0, 0 }, 0 };
    F_plane_setnd (&pl, &n, in_d);
    VF_ASSERT (REQ (pl.distance, in_d) && PARALLEL (pl.normal, n), "Plane3(normal, distance): distance stored, normal parallel to the given one");
    VF_END ();
}
#define IN_PLANE(pl) IN_V3 (pn_, in_n); IN_EL (in_d); PL pl = { { 0, 0, 0 }, 0 }; pl.normal = pn_; pl.distance = in_d; EL N = DOT (pl.normal, pl.normal); (void) N
/* reflectPoint: negates the signed distance and is an involution - homogeneous in N = n.n */
void h_plane_reflectPoint (void)
{
    IN_PLANE (pl); IN_V3 (p, in_p);
    EL d = F_plane_distanceTo (&pl, &p);
    V3 r = F_plane_reflectPoint (&pl, &p);
    VF_ASSERT (REQ (F_plane_distanceTo (&pl, &r), d * (1 - 2 * N)), "distanceTo(reflectPoint(p)) == distanceTo(p) * (1 - 2N): negated at unit normal");
    V3 rr = F_plane_reflectPoint (&pl, &r);
    VF_ASSERT (VREQ (rr, p.x + pl.normal.x * d * 4 * (N - 1), p.y + pl.normal.y * d * 4 * (N - 1), p.z + pl.normal.z * d * 4 * (N - 1)), "reflectPoint(reflectPoint(p)) == p + 4 (N-1) distanceTo(p) n: an involution at unit normal");
    VF_END ();
}
void h_plane_reflectVector (void)
{
    IN_PLANE (pl); IN_V3 (v, in_v);
    EL k = DOT (pl.normal, v);
    V3 r = F_plane_reflectVector (&pl, &v);
    VF_ASSERT (VREQ (r, pl.normal.x * k * 2 - v.x, pl.normal.y * k * 2 - v.y, pl.normal.z * k * 2 - v.z), "reflectVector(v) == 2 (n.v) n - v");
    V3 rr = F_plane_reflectVector (&pl, &r);
    VF_ASSERT (VREQ (rr, v.x + pl.normal.x * k * 4 * (N - 1), v.y + pl.normal.y * k * 4 * (N - 1), v.z + pl.normal.z * k * 4 * (N - 1)), "reflectVector(reflectVector(v)) == v + 4 (N-1) (n.v) n: an involution at unit normal");
    VF_END ();
}
/* line-plane intersection: false exactly for n.dir == 0; the point is line(t); it lies on the plane up to the residual (1 - d*inv(d)) */
void h_plane_intersect (void)
{
    IN_PLANE (pl); IN_V3 (lp, in_lp); IN_V3 (ld, in_ld);
    LN ln = { { 0, 0, 0 }, { 0, 0, 0 } }; ln.pos = lp; ln.dir = ld;
    EL dd = DOT (pl.normal, ln.dir);
    EL A = DOT (pl.normal, ln.pos) - pl.distance;
    V3 pt = { 0, 0, 0 }; EL t = 0;
    _Bool r1 = F_plane_intersect (&pl, &ln, &pt);
    _Bool r2 = F_plane_intersectT (&pl, &ln, &t);
    VF_ASSERT (r1 == (dd != 0) && r2 == (dd != 0), "intersect / intersectT are false exactly when the line is parallel to the plane (n.dir == 0)");
    if (dd != 0)
    {
        V3 q = F_line_at (&ln, t);
        VF_ASSERT (VREQ (pt, q.x, q.y, q.z), "intersect's point is the line evaluated at intersectT's parameter");
        VF_ASSERT (REQ (F_plane_distanceTo (&pl, &pt), A + dd * t), "signed distance of line(t) is (n.pos - d) + (n.dir) t");
        VF_ASSERT (REQ (t, (0 - A) * RR_INV (dd)), "intersectT's parameter is -(n.pos - d) / (n.dir)");
        VF_ASSERT (REQ (F_plane_distanceTo (&pl, &pt), A * (1 - dd * RR_INV (dd))), "the intersection point lies on the plane: distanceTo(point) == (n.pos - d) (1 - (n.dir) inv(n.dir))");
        V3 w = vsub (pt, ln.pos);
        VF_ASSERT (PARALLEL (w, ln.dir), "the intersection point lies on the line");
    }
    VF_END ();
}
void h_plane_neg (void)
{
    IN_PLANE (pl);
    PL m = F_plane_neg (&pl);
    VF_ASSERT (PARALLEL (m.normal, pl.normal) && REQ (m.distance, -pl.distance), "-plane: normal parallel to the old one (re-normalised by the constructor), distance negated");
    VF_END ();
}
/* Line3 */
void h_line_set (void)
{
    IN_V3 (p0, in_p0); IN_V3 (p1, in_p1);
    LN ln = { { 0, 0, 0 }, { 0, 0, 0 } };
    F_line_set (&ln, &p0, &p1);
    V3 w = vsub (p1, p0);
    VF_ASSERT (VREQ (ln.pos, p0.x, p0.y, p0.z) && PARALLEL (ln.dir, w), "Line3(p0,p1): starts at p0 and its direction is parallel to p1 - p0");
    VF_END ();
}
void h_line_closestPoint (void)
{
    IN_V3 (lp, in_lp); IN_V3 (ld, in_ld); IN_V3 (p, in_p); IN_EL (in_t);
    LN ln = { { 0, 0, 0 }, { 0, 0, 0 } }; ln.pos = lp; ln.dir = ld;
    EL N = DOT (ld, ld);
    V3 q = F_line_at (&ln, in_t);
    VF_ASSERT (VREQ (q, lp.x + ld.x * in_t, lp.y + ld.y * in_t, lp.z + ld.z * in_t), "line(t) == pos + t dir");
    V3 c = F_line_closestPointTo (&ln, &p);
    V3 w = vsub (c, lp), e = vsub (c, p), pp = vsub (p, lp);
    VF_ASSERT (PARALLEL (w, ld), "closestPointTo(point) lies on the line");
    VF_ASSERT (REQ (DOT (e, ld), DOT (pp, ld) * (N - 1)), "(closest - point).dir == ((point - pos).dir) (N - 1): perpendicular at unit direction");
    VF_END ();
}
/* Line3::distanceTo(point) and closestVertex (ImathLineAlgo.h) */
void h_line_distanceTo (void)
{
    IN_V3 (lp, in_lp); IN_V3 (ld, in_ld); IN_V3 (p, in_p);
    LN ln = { { 0, 0, 0 }, { 0, 0, 0 } }; ln.pos = lp; ln.dir = ld;
    V3 c = F_line_closestPointTo (&ln, &p);
    V3 e = vsub (c, p);
    EL d = F_line_distanceTo (&ln, &p);
    VF_ASSERT (REQ (d, F_length (&e)), "distanceTo(point) == length of closestPointTo(point) - point");
    VF_END ();
}
#define DIST2(v) (DOT (v, v))
void h_closestVertex (void)
{
    IN_V3 (lp, in_lp); IN_V3 (ld, in_ld); IN_V3 (v0, in_v0); IN_V3 (v1, in_v1); IN_V3 (v2, in_v2);
    LN ln = { { 0, 0, 0 }, { 0, 0, 0 } }; ln.pos = lp; ln.dir = ld;
    V3 c0 = F_line_closestPointTo (&ln, &v0), c1 = F_line_closestPointTo (&ln, &v1), c2 = F_line_closestPointTo (&ln, &v2);
    V3 e0 = vsub (v0, c0), e1 = vsub (v1, c1), e2 = vsub (v2, c2);
    EL d0 = DIST2 (e0), d1 = DIST2 (e1), d2 = DIST2 (e2);
    V3 r = F_closestVertex (&v0, &v1, &v2, &ln);
    /* some vertex of minimal squared distance (which one on a tie is not part of the property) */
    VF_ASSERT ((VEQX (r, v0) && d0 <= d1 && d0 <= d2) || (VEQX (r, v1) && d1 <= d0 && d1 <= d2) || (VEQX (r, v2) && d2 <= d0 && d2 <= d1),
               "closestVertex returns one of the three vertices, and none of the others is closer to the line (squared distance to its closest point)");
    VF_END ();
}
/* project / orthogonal / reflect (ImathVecAlgo.h) */
void h_vecalgo (void)
{
    IN_V3 (s, in_s); IN_V3 (t, in_t);
    V3 pr = F_project (&s, &t);
    V3 og = F_orthogonal (&s, &t);
    VF_ASSERT (PARALLEL (pr, s), "project(s, t) is parallel to s");
    VF_ASSERT (VREQ (og, t.x - pr.x, t.y - pr.y, t.z - pr.z), "orthogonal(s, t) + project(s, t) == t");
    EL l = F_length (&s);
    EL il = (l != 0) ? RR_INV (l) : 0; /* normalized() of a zero-length vector is the zero vector */
    VF_ASSERT (REQ (DOT (og, s), DOT (s, t) * (1 - il * il * DOT (s, s))), "orthogonal(s, t).s == (s.t) (1 - (s.s) inv(|s|)^2): perpendicular to s");
    V3 pr2 = F_project (&t, &s);
    V3 rf = F_reflect (&s, &t);
    VF_ASSERT (VREQ (rf, 2 * pr2.x - s.x, 2 * pr2.y - s.y, 2 * pr2.z - s.z), "reflect(s, t) == 2 project(t, s) - s");
    VF_END ();
}
