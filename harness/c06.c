/* C06: matrix inversion - clauses within reach.
 *  (1) adjugate structure (RING, T = unsigned int): for matrices M = L*U with unit-triangular factors (det identically 1,
 *      so the |r| >= 1 branch divides by exactly 1) the REAL inverse() satisfies M * inverse(M) == I and inverse(M) * M == I;
 *      4x4: affine matrices [[L*U, 0], [t, 1]] (the cofactor fast path).
 *  (2) singular outcome (IEEE, float): determinant() == 0  ==>  inverse() returns the identity (2x2, 3x3).
 *  (3) in-place forms leave what value forms return: decided by the C07 units (re-run here). */
#include "vf.h"
#include "c04_spec.h"
#include "c06_names.h"
#ifdef VF_NATIVE
#include "c06x.fwd.c"
#else
#include "c06x.c"
#endif
typedef unsigned int U;
#define ISID(m, n) is_identity_##n (m)
static inline _Bool is_identity_2 (struct Matrix22_uint m) { for (int i = 0; i < 2; i++) for (int j = 0; j < 2; j++) if (m.x[i][j] != (U) (i == j)) return 0; return 1; }
static inline _Bool is_identity_3 (struct Matrix33_uint m) { for (int i = 0; i < 3; i++) for (int j = 0; j < 3; j++) if (m.x[i][j] != (U) (i == j)) return 0; return 1; }
static inline _Bool is_identity_4 (struct Matrix44_uint m) { for (int i = 0; i < 4; i++) for (int j = 0; j < 4; j++) if (m.x[i][j] != (U) (i == j)) return 0; return 1; }

void h_adj22 (void)
{
    VF_IN (U, in_l); VF_IN (U, in_u);
    struct Matrix22_uint m; /* [[1,0],[l,1]] * [[1,u],[0,1]] */
    m.x[0][0] = 1; m.x[0][1] = in_u; m.x[1][0] = in_l; m.x[1][1] = in_l * in_u + 1;
    struct Matrix22_uint inv = F_inverse22u (&m);
    struct Matrix22_uint p = F_mul22u (&m, &inv), q = F_mul22u (&inv, &m);
    VF_ASSERT (ISID (p, 2), "M * inverse(M) == I (2x2, unit determinant)");
    VF_ASSERT (ISID (q, 2), "inverse(M) * M == I (2x2, unit determinant)");
    VF_END ();
}
#define LU3(m, l, u)                                                                  \
    do { U L[3][3] = { { 1, 0, 0 }, { l[0], 1, 0 }, { l[1], l[2], 1 } }, Um[3][3] = { { 1, u[0], u[1] }, { 0, 1, u[2] }, { 0, 0, 1 } }; \
         for (int i = 0; i < 3; i++) for (int j = 0; j < 3; j++) { U s = 0; for (int k = 0; k < 3; k++) s += L[i][k] * Um[k][j]; (m).x[i][j] = s; } } while (0)
void h_adj33 (void)
{
    VF_IN_ARR (U, in_l, 3); VF_IN_ARR (U, in_u, 3);
    U u[3] = { in_u[0], 1, in_u[2] }; /* entry [0][2] of M is u[1]: fixed to 1 so that the (non-affine) cofactor path is taken syntactically */
    struct Matrix33_uint m; LU3 (m, in_l, u);
    struct Matrix33_uint inv = F_inverse33u (&m);
    struct Matrix33_uint p = F_mul33u (&m, &inv), q = F_mul33u (&inv, &m);
    VF_ASSERT (ISID (p, 3), "M * inverse(M) == I (3x3 cofactor path, unit determinant)");
    VF_ASSERT (ISID (q, 3), "inverse(M) * M == I (3x3 cofactor path, unit determinant)");
    VF_END ();
}
/* 3x3 affine fast path: last column (0,0,1), 2x2 block with unit determinant */
void h_adj33affine (void)
{
    VF_IN (U, in_l); VF_IN (U, in_u); VF_IN_ARR (U, in_t, 2);
    struct Matrix33_uint m; memset (&m, 0, sizeof m);
    m.x[0][0] = 1; m.x[0][1] = in_u; m.x[1][0] = in_l; m.x[1][1] = in_l * in_u + 1; m.x[2][0] = in_t[0]; m.x[2][1] = in_t[1]; m.x[2][2] = 1;
    struct Matrix33_uint inv = F_inverse33u (&m);
    struct Matrix33_uint p = F_mul33u (&m, &inv), q = F_mul33u (&inv, &m);
    VF_ASSERT (ISID (p, 3), "M * inverse(M) == I (3x3 affine fast path)");
    VF_ASSERT (ISID (q, 3), "inverse(M) * M == I (3x3 affine fast path)");
    VF_END ();
}
void h_adj44affine (void)
{
    VF_IN_ARR (U, in_l, 3); VF_IN_ARR (U, in_u, 3); VF_IN_ARR (U, in_t, 3);
    struct Matrix33_uint a; LU3 (a, in_l, in_u);
    struct Matrix44_uint m; memset (&m, 0, sizeof m);
    for (int i = 0; i < 3; i++) for (int j = 0; j < 3; j++) m.x[i][j] = a.x[i][j];
    m.x[3][0] = in_t[0]; m.x[3][1] = in_t[1]; m.x[3][2] = in_t[2]; m.x[3][3] = 1;
    struct Matrix44_uint inv = F_inverse44u (&m);
    struct Matrix44_uint p = F_mul44u (&m, &inv), q = F_mul44u (&inv, &m);
    VF_ASSERT (ISID (p, 4), "M * inverse(M) == I (4x4 affine branch)");
    VF_ASSERT (ISID (q, 4), "inverse(M) * M == I (4x4 affine branch)");
    VF_END ();
}
/* singular outcome, IEEE float: zero determinant => identity */
#define FIN(x) ((x) >= -3.4028234664e38f && (x) <= 3.4028234664e38f)
void h_sing22 (void)
{
    VF_IN_ARR (float, in_m, 4);
    struct Matrix22_float m; for (int i = 0; i < 4; i++) { VF_ASSUME (FIN (in_m[i])); m.x[i / 2][i % 2] = in_m[i]; }
    VF_ASSUME (F_det22f (&m) == 0.0f);
    struct Matrix22_float r = F_inverse22f (&m);
    VF_ASSERT (r.x[0][0] == 1.0f && r.x[0][1] == 0.0f && r.x[1][0] == 0.0f && r.x[1][1] == 1.0f, "determinant() == 0 => inverse() returns the identity (2x2)");
    VF_END ();
}
void h_sing33 (void)
{
    VF_IN_ARR (float, in_m, 9);
    struct Matrix33_float m; for (int i = 0; i < 9; i++) { VF_ASSUME (FIN (in_m[i])); m.x[i / 3][i % 3] = in_m[i]; }
    VF_ASSUME (F_det33f (&m) == 0.0f);
    struct Matrix33_float r = F_inverse33f (&m);
    for (int i = 0; i < 3; i++) for (int j = 0; j < 3; j++) VF_ASSERT (r.x[i][j] == (float) (i == j), "determinant() == 0 => inverse() returns the identity (3x3)");
    VF_END ();
}
