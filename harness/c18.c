/* C18: rand48 family and Rand32/Rand48, extracted from ImathRandom.cpp / ImathRandom.h */
#include "vf.h"
#ifdef VF_NATIVE
#include "c18x.fwd.c"
#else
#include "c18x.c"
#endif

/* ---- specification, from POSIX drand48(3): X' = (a X + c) mod 2^48, a = 0x5DEECE66D, c = 0xB;
 *      xsubi[0] is the low-order 16 bits, xsubi[2] the high-order 16 bits;
 *      nrand48 returns the 31 high-order bits of X'; erand48 returns X' / 2^48;
 *      srand48 sets the high 32 bits to the seed's low 32 bits and the low 16 bits to 0x330E ---- */
#define SPEC_X48(s0, s1, s2) (((uint64_t) (s2) << 32) | ((uint64_t) (s1) << 16) | (uint64_t) (s0))
#define SPEC_NEXT48(X) ((0x5DEECE66Dull * (X) + 0xBull) & 0xFFFFFFFFFFFFull)
#define SPEC_S0(X) ((unsigned short) ((X) & 0xffff))
#define SPEC_S1(X) ((unsigned short) (((X) >> 16) & 0xffff))
#define SPEC_S2(X) ((unsigned short) (((X) >> 32) & 0xffff))

#define SPEC_R32_NEXT(S) (1664525ul * (S) + 1013904223ul)
#define POST_STATE(st, X0) (SPEC_X48 ((st)[0], (st)[1], (st)[2]) == SPEC_NEXT48 (X0))
#define POST_NRAND(r, X0) ((r) == (long) (SPEC_NEXT48 (X0) >> 17))
/* 0 <= r < 1 and 0 <= r - X'/2^48 < 2^-48 (X'/2^48 is exact in double) */
#define POST_ERAND_RANGE(r) ((r) >= 0.0 && (r) < 1.0)
#define POST_ERAND_VAL(r, X0) ((r) - (double) SPEC_NEXT48 (X0) * 0x1p-48 >= 0.0 && (r) - (double) SPEC_NEXT48 (X0) * 0x1p-48 < 0x1p-48)
/* the same, stated against the successor state X' the function leaves behind */
#define POST_ERAND_VALN(r, st) ((r) - (double) SPEC_X48 ((st)[0], (st)[1], (st)[2]) * 0x1p-48 >= 0.0 && (r) - (double) SPEC_X48 ((st)[0], (st)[1], (st)[2]) * 0x1p-48 < 0x1p-48)

#ifndef VF_NATIVE
void rand48Next__ushortP (unsigned short *state)
    __CPROVER_requires (__CPROVER_rw_ok (state, 3 * sizeof (unsigned short)))
    __CPROVER_assigns (state[0], state[1], state[2])
    __CPROVER_ensures (POST_STATE (state, SPEC_X48 (__CPROVER_old (state[0]), __CPROVER_old (state[1]), __CPROVER_old (state[2]))));

long nrand48__ushortP (unsigned short *state)
    __CPROVER_requires (__CPROVER_rw_ok (state, 3 * sizeof (unsigned short)))
    __CPROVER_assigns (state[0], state[1], state[2])
    __CPROVER_ensures (POST_STATE (state, SPEC_X48 (__CPROVER_old (state[0]), __CPROVER_old (state[1]), __CPROVER_old (state[2]))))
    __CPROVER_ensures (POST_NRAND (__CPROVER_return_value, SPEC_X48 (__CPROVER_old (state[0]), __CPROVER_old (state[1]), __CPROVER_old (state[2]))))
    __CPROVER_ensures (__CPROVER_return_value >= 0 && __CPROVER_return_value < 2147483648L);

double erand48__ushortP (unsigned short *state)
    __CPROVER_requires (__CPROVER_rw_ok (state, 3 * sizeof (unsigned short)))
    __CPROVER_assigns (state[0], state[1], state[2])
    __CPROVER_ensures (POST_STATE (state, SPEC_X48 (__CPROVER_old (state[0]), __CPROVER_old (state[1]), __CPROVER_old (state[2]))))
    __CPROVER_ensures (POST_ERAND_RANGE (__CPROVER_return_value))
    __CPROVER_ensures (POST_ERAND_VAL (__CPROVER_return_value, SPEC_X48 (__CPROVER_old (state[0]), __CPROVER_old (state[1]), __CPROVER_old (state[2]))));

/* Two views of erand48's contract, discharged separately because the body reinterprets an
 * integer as a double through a union: the value view (result against the successor state the
 * call leaves behind; callee rand48Next used through its frame only) goes to SAT, the state view
 * (successor state against the POSIX recurrence; callee through its full contract) to cvc5 with
 * formula slicing.  h_erand48_compose derives the full contract above from the two views. */
double erand48_value_view (unsigned short *state)
    __CPROVER_requires (__CPROVER_rw_ok (state, 3 * sizeof (unsigned short)))
    __CPROVER_assigns (state[0], state[1], state[2])
    __CPROVER_ensures (POST_ERAND_RANGE (__CPROVER_return_value))
    __CPROVER_ensures (POST_ERAND_VALN (__CPROVER_return_value, state));
double erand48_state_view (unsigned short *state)
    __CPROVER_requires (__CPROVER_rw_ok (state, 3 * sizeof (unsigned short)))
    __CPROVER_assigns (state[0], state[1], state[2])
    __CPROVER_ensures (POST_STATE (state, SPEC_X48 (__CPROVER_old (state[0]), __CPROVER_old (state[1]), __CPROVER_old (state[2]))));
void rand48Next_frame (unsigned short *state)
    __CPROVER_requires (__CPROVER_rw_ok (state, 3 * sizeof (unsigned short)))
    __CPROVER_assigns (state[0], state[1], state[2]);

/* the parameterless forms operate on the library's static state */
long Imath_lrand48 (void)
    __CPROVER_assigns (staticState[0], staticState[1], staticState[2])
    __CPROVER_ensures (POST_STATE (staticState, SPEC_X48 (__CPROVER_old (staticState[0]), __CPROVER_old (staticState[1]), __CPROVER_old (staticState[2]))))
    __CPROVER_ensures (POST_NRAND (__CPROVER_return_value, SPEC_X48 (__CPROVER_old (staticState[0]), __CPROVER_old (staticState[1]), __CPROVER_old (staticState[2]))));

double Imath_drand48 (void)
    __CPROVER_assigns (staticState[0], staticState[1], staticState[2])
    __CPROVER_ensures (POST_STATE (staticState, SPEC_X48 (__CPROVER_old (staticState[0]), __CPROVER_old (staticState[1]), __CPROVER_old (staticState[2]))))
    __CPROVER_ensures (POST_ERAND_RANGE (__CPROVER_return_value))
    __CPROVER_ensures (POST_ERAND_VAL (__CPROVER_return_value, SPEC_X48 (__CPROVER_old (staticState[0]), __CPROVER_old (staticState[1]), __CPROVER_old (staticState[2]))));

void srand48__long (long seed)
    __CPROVER_assigns (staticState[0], staticState[1], staticState[2])
    __CPROVER_ensures (staticState[0] == 0x330E)
    __CPROVER_ensures (staticState[1] == (unsigned short) (seed & 0xffff))
    __CPROVER_ensures (staticState[2] == (unsigned short) ((seed >> 16) & 0xffff));

/* ---- Rand32: state update is the stated LCG; results are functions of the state only ---- */
void Rand32_init__ulong (struct Rand32 *this_, unsigned long seed)
    __CPROVER_requires (__CPROVER_rw_ok (this_, sizeof (*this_)))
    __CPROVER_assigns (this_->_state)
    __CPROVER_ensures (this_->_state == ((seed * 0xa5a573a5ul) ^ 0x5a5a5a5aul));
void Rand32_next (struct Rand32 *this_)
    __CPROVER_requires (__CPROVER_rw_ok (this_, sizeof (*this_)))
    __CPROVER_assigns (this_->_state)
    __CPROVER_ensures (this_->_state == SPEC_R32_NEXT (__CPROVER_old (this_->_state)));
_Bool Rand32_nextb (struct Rand32 *this_)
    __CPROVER_requires (__CPROVER_rw_ok (this_, sizeof (*this_)))
    __CPROVER_assigns (this_->_state)
    __CPROVER_ensures (this_->_state == SPEC_R32_NEXT (__CPROVER_old (this_->_state)))
    __CPROVER_ensures (__CPROVER_return_value == ((this_->_state >> 31) & 1));
unsigned long Rand32_nexti (struct Rand32 *this_)
    __CPROVER_requires (__CPROVER_rw_ok (this_, sizeof (*this_)))
    __CPROVER_assigns (this_->_state)
    __CPROVER_ensures (this_->_state == SPEC_R32_NEXT (__CPROVER_old (this_->_state)))
    __CPROVER_ensures (__CPROVER_return_value == (this_->_state & 0xfffffffful))
    __CPROVER_ensures (__CPROVER_return_value < 4294967296ul);
float Rand32_nextf (struct Rand32 *this_)
    __CPROVER_requires (__CPROVER_rw_ok (this_, sizeof (*this_)))
    __CPROVER_assigns (this_->_state)
    __CPROVER_ensures (this_->_state == SPEC_R32_NEXT (__CPROVER_old (this_->_state)))
    __CPROVER_ensures (__CPROVER_return_value >= 0.0f && __CPROVER_return_value < 1.0f)
    /* value = (low 23 bits of the new state) / 2^23, exactly */
    __CPROVER_ensures (__CPROVER_return_value == (float) (this_->_state & 0x7ffffful) * 0x1p-23f);

float Rand32_nextf_value_view (struct Rand32 *this_)
    __CPROVER_requires (__CPROVER_rw_ok (this_, sizeof (*this_)))
    __CPROVER_assigns (this_->_state)
    __CPROVER_ensures (__CPROVER_return_value >= 0.0f && __CPROVER_return_value < 1.0f)
    __CPROVER_ensures (__CPROVER_return_value == (float) (this_->_state & 0x7ffffful) * 0x1p-23f);
float Rand32_nextf_state_view (struct Rand32 *this_)
    __CPROVER_requires (__CPROVER_rw_ok (this_, sizeof (*this_)))
    __CPROVER_assigns (this_->_state)
    __CPROVER_ensures (this_->_state == SPEC_R32_NEXT (__CPROVER_old (this_->_state)));
void Rand32_next_frame (struct Rand32 *this_)
    __CPROVER_requires (__CPROVER_rw_ok (this_, sizeof (*this_)))
    __CPROVER_assigns (this_->_state);

/* ---- Rand48 forwards to the C functions on its own state ---- */
_Bool Rand48_nextb (struct Rand48 *this_)
    __CPROVER_requires (__CPROVER_rw_ok (this_, sizeof (*this_)))
    __CPROVER_assigns (this_->_state[0], this_->_state[1], this_->_state[2])
    __CPROVER_ensures (POST_STATE (this_->_state, SPEC_X48 (__CPROVER_old (this_->_state[0]), __CPROVER_old (this_->_state[1]), __CPROVER_old (this_->_state[2]))))
    __CPROVER_ensures (__CPROVER_return_value == ((SPEC_NEXT48 (SPEC_X48 (__CPROVER_old (this_->_state[0]), __CPROVER_old (this_->_state[1]), __CPROVER_old (this_->_state[2]))) >> 17) & 1));
long Rand48_nexti (struct Rand48 *this_)
    __CPROVER_requires (__CPROVER_rw_ok (this_, sizeof (*this_)))
    __CPROVER_assigns (this_->_state[0], this_->_state[1], this_->_state[2])
    __CPROVER_ensures (POST_STATE (this_->_state, SPEC_X48 (__CPROVER_old (this_->_state[0]), __CPROVER_old (this_->_state[1]), __CPROVER_old (this_->_state[2]))))
    __CPROVER_ensures (POST_NRAND (__CPROVER_return_value, SPEC_X48 (__CPROVER_old (this_->_state[0]), __CPROVER_old (this_->_state[1]), __CPROVER_old (this_->_state[2]))))
    __CPROVER_ensures (__CPROVER_return_value >= 0 && __CPROVER_return_value < 2147483648L);
double Rand48_nextf (struct Rand48 *this_)
    __CPROVER_requires (__CPROVER_rw_ok (this_, sizeof (*this_)))
    __CPROVER_assigns (this_->_state[0], this_->_state[1], this_->_state[2])
    __CPROVER_ensures (POST_STATE (this_->_state, SPEC_X48 (__CPROVER_old (this_->_state[0]), __CPROVER_old (this_->_state[1]), __CPROVER_old (this_->_state[2]))))
    __CPROVER_ensures (POST_ERAND_RANGE (__CPROVER_return_value))
    __CPROVER_ensures (POST_ERAND_VAL (__CPROVER_return_value, SPEC_X48 (__CPROVER_old (this_->_state[0]), __CPROVER_old (this_->_state[1]), __CPROVER_old (this_->_state[2]))));
void Rand48_init__ulong (struct Rand48 *this_, unsigned long seed)
    __CPROVER_requires (__CPROVER_rw_ok (this_, sizeof (*this_)))
    __CPROVER_assigns (this_->_state[0], this_->_state[1], this_->_state[2])
    /* a pure function of the seed (the documented scrambling) */
    __CPROVER_ensures (this_->_state[0] == (unsigned short) (((seed * 0xa5a573a5ul) ^ 0x5a5a5a5aul) & 0xffff))
    __CPROVER_ensures (this_->_state[1] == (unsigned short) ((((seed * 0xa5a573a5ul) ^ 0x5a5a5a5aul) >> 16) & 0xffff))
    __CPROVER_ensures (this_->_state[2] == (unsigned short) (((seed * 0xa5a573a5ul) ^ 0x5a5a5a5aul) & 0xffff));
#endif

/* ---------------- harnesses ---------------- */
#define IN_STATE()                                                             \
    VF_IN (unsigned short, in_s0); VF_IN (unsigned short, in_s1); VF_IN (unsigned short, in_s2); \
    unsigned short st[3] = { in_s0, in_s1, in_s2 };                            \
    uint64_t X0 = SPEC_X48 (in_s0, in_s1, in_s2); (void) X0

void h_rand48Next (void)
{
    IN_STATE ();
    rand48Next__ushortP (st);
    VF_POST (POST_STATE (st, X0), "rand48Next: X' = (0x5DEECE66D X + 0xB) mod 2^48");
    VF_END ();
}
void h_nrand48 (void)
{
    IN_STATE ();
    long r = nrand48__ushortP (st);
    VF_POST (POST_STATE (st, X0), "nrand48 successor state");
    VF_POST (POST_NRAND (r, X0), "nrand48 returns the 31 high-order bits of X'");
    (void) r;
    VF_END ();
}
void h_erand48 (void)
{
    IN_STATE ();
    double r = erand48__ushortP (st);
    VF_POST (POST_STATE (st, X0), "erand48 successor state");
    VF_POST (POST_ERAND_RANGE (r), "erand48 in [0,1)");
    VF_POST (POST_ERAND_VAL (r, X0), "erand48 within 2^-48 of X'/2^48");
    VF_POST (POST_ERAND_VALN (r, st), "erand48 within 2^-48 of (successor state)/2^48");
    (void) r;
    VF_END ();
}
#ifndef VF_NATIVE
void h_lrand48 (void) { long r = Imath_lrand48 (); (void) r; VF_END (); }
void h_drand48 (void) { double r = Imath_drand48 (); (void) r; VF_END (); }
void h_srand48 (void) { VF_IN (long, in_seed); srand48__long (in_seed); VF_END (); }
#else
/* natively the static state is private to the library: observe it through the next draw */
void h_srand48 (void)
{
    VF_IN (long, in_seed);
    srand48__long (in_seed);
    long r = Imath_lrand48 ();
    uint64_t X0 = SPEC_X48 (0x330E, (unsigned short) (in_seed & 0xffff), (unsigned short) ((in_seed >> 16) & 0xffff));
    VF_POST (POST_NRAND (r, X0), "srand48(seed); lrand48() is the POSIX value for that seed");
}
void h_lrand48 (void) { h_srand48 (); }
void h_drand48 (void) { h_srand48 (); }
#endif
#define IN_R32() VF_IN (unsigned long, in_state); struct Rand32 g; g._state = in_state
void h_r32_init (void) { IN_R32 (); VF_IN (unsigned long, in_seed); Rand32_init__ulong (&g, in_seed); VF_POST (g._state == ((in_seed * 0xa5a573a5ul) ^ 0x5a5a5a5aul), "Rand32::init"); VF_END (); }
void h_r32_next (void) { IN_R32 (); Rand32_next (&g); VF_POST (g._state == SPEC_R32_NEXT (in_state), "Rand32::next LCG"); VF_END (); }
void h_r32_nextb (void) { IN_R32 (); _Bool r = Rand32_nextb (&g); VF_POST (r == ((g._state >> 31) & 1), "Rand32::nextb is bit 31"); (void) r; VF_END (); }
void h_r32_nexti (void) { IN_R32 (); unsigned long r = Rand32_nexti (&g); VF_POST (r == (g._state & 0xfffffffful) && r < 4294967296ul, "Rand32::nexti range"); (void) r; VF_END (); }
void h_r32_nextf (void)
{
    IN_R32 ();
    float r = Rand32_nextf (&g);
    VF_POST (g._state == SPEC_R32_NEXT (in_state), "Rand32::nextf advances the state once");
    VF_POST (r >= 0.0f && r < 1.0f, "Rand32::nextf in [0,1)");
    VF_POST (r == (float) (g._state & 0x7ffffful) * 0x1p-23f, "Rand32::nextf value");
    (void) r;
    VF_END ();
}
#define IN_R48() IN_STATE (); struct Rand48 g; g._state[0] = in_s0; g._state[1] = in_s1; g._state[2] = in_s2
void h_r48_nextb (void) { IN_R48 (); _Bool r = Rand48_nextb (&g); VF_POST (POST_STATE (g._state, X0) && r == ((SPEC_NEXT48 (X0) >> 17) & 1), "Rand48::nextb"); (void) r; VF_END (); }
void h_r48_nexti (void) { IN_R48 (); long r = Rand48_nexti (&g); VF_POST (POST_STATE (g._state, X0) && POST_NRAND (r, X0), "Rand48::nexti"); (void) r; VF_END (); }
void h_r48_nextf (void) { IN_R48 (); double r = Rand48_nextf (&g); VF_POST (POST_STATE (g._state, X0) && POST_ERAND_RANGE (r) && POST_ERAND_VAL (r, X0), "Rand48::nextf"); (void) r; VF_END (); }
void h_r48_init (void)
{
    IN_R48 ();
    VF_IN (unsigned long, in_seed);
    Rand48_init__ulong (&g, in_seed);
    VF_POST (g._state[0] == (unsigned short) (((in_seed * 0xa5a573a5ul) ^ 0x5a5a5a5aul) & 0xffff), "Rand48::init");
    VF_END ();
}

/* composition of the two erand48 views into the POSIX statement (pure logic, no calls) */
void h_erand48_compose (void)
{
    IN_STATE ();
    VF_IN (unsigned short, in_n0); VF_IN (unsigned short, in_n1); VF_IN (unsigned short, in_n2);
    VF_IN (double, in_r);
    unsigned short n[3] = { in_n0, in_n1, in_n2 };
    VF_ASSUME (POST_STATE (n, X0));           /* state view */
    VF_ASSUME (POST_ERAND_RANGE (in_r) && POST_ERAND_VALN (in_r, n)); /* value view */
    VF_ASSERT (POST_ERAND_VAL (in_r, X0), "erand48 within 2^-48 of X'/2^48 with X' the POSIX successor");
    VF_END ();
}

/* lemma (contracts only): the sequence is a pure function of the state - two generators in the
 * same state return the same value and stay in the same state, whatever entry point is called */
void h_lemma_determinism (void)
{
    IN_STATE ();
    unsigned short st2[3] = { in_s0, in_s1, in_s2 };
    VF_IN (_Bool, in_which);
    if (in_which)
    {
        long a = nrand48__ushortP (st), b = nrand48__ushortP (st2);
        VF_ASSERT (a == b, "nrand48 deterministic");
    }
    else
    {
        double a = erand48__ushortP (st), b = erand48__ushortP (st2);
        (void) a; (void) b;
    }
    VF_ASSERT (st[0] == st2[0] && st[1] == st2[1] && st[2] == st2[2], "same successor state from either entry point");
    VF_END ();
}
