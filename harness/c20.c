/* C20: vectorised PyImath kernels: execute(start,end) writes exactly result[k], start <= k < end, with
 * Op::apply of the k-th arguments (through the accessors' index maps), touches nothing else; hence any partition
 * of [0,len) in any order gives the array of execute(0,len).  Op::apply is an uninterpreted pure function. */
#include "vf.h"
#include "c20_names.h"
#ifdef VF_LOOPCONTRACT
/* the extracted file with a loop contract inserted mechanically into the kernel's single for-loop (c20.py) */
static unsigned long vf_gk; /* ghost index */
static int vf_ge;           /* ghost: apply (arg1[vf_gk], arg2[vf_gk]) */
#include "c20x_lc.c"
#else
#include "c20x.c"
#endif
#ifndef NB
#define NB 8
#endif
typedef struct FixedArray_int_WritableDirectAccess WDA;
typedef struct FixedArray_int_ReadOnlyDirectAccess RDA;
typedef struct FixedArray_int_ReadOnlyMaskedAccess RMA;
typedef struct FixedArray_int_WritableMaskedAccess WMA;

/* match_lengths: mismatched vector lengths raise before any task exists */
struct std_pair_ulong_bool F_match_lengths (struct std_pair_ulong_bool *a, struct std_pair_ulong_bool *b)
    __CPROVER_requires (__CPROVER_r_ok (a, sizeof (*a)) && __CPROVER_r_ok (b, sizeof (*b))) __CPROVER_assigns (cxx2c_thrown)
    __CPROVER_ensures ((cxx2c_thrown != 0) == (a->second && b->second && a->first != b->first))
    __CPROVER_ensures (cxx2c_thrown == 0 || cxx2c_thrown == CXX2C_E_std_invalid_argument)
    __CPROVER_ensures (cxx2c_thrown != 0 || (__CPROVER_return_value.first == (a->second ? a->first : b->first) && __CPROVER_return_value.second == (a->second || b->second)));
void h_match_lengths (void)
{
    VF_IN (unsigned long, in_l1); VF_IN (_Bool, in_v1); VF_IN (unsigned long, in_l2); VF_IN (_Bool, in_v2);
    struct std_pair_ulong_bool a = { in_l1, in_v1 }, b = { in_l2, in_v2 };
    cxx2c_thrown = 0;
    struct std_pair_ulong_bool r = F_match_lengths (&a, &b); (void) r;
    VF_END ();
}

/* ---- buffers: result, two arguments, a mask index table ---- */
static int R[NB], A[NB], B[NB];
static unsigned long IDX[NB];
#define SETUP()                                                                                   \
    VF_IN_ARR (int, in_r, NB); VF_IN_ARR (int, in_a, NB); VF_IN_ARR (int, in_b, NB); VF_IN_ARR (unsigned long, in_idx, NB); \
    VF_IN (unsigned long, in_len); VF_IN (unsigned long, in_start); VF_IN (unsigned long, in_end); \
    for (int k = 0; k < NB; k++) { R[k] = in_r[k]; A[k] = in_a[k]; B[k] = in_b[k]; IDX[k] = in_idx[k]; } \
    VF_ASSUME (in_len <= NB && in_start <= in_end && in_end <= in_len);                          \
    for (int k = 0; k < NB; k++) VF_ASSUME (IDX[k] < NB)

/* K2dd: result direct, both arguments direct (stride 1) */
#define MK_K2DD(t) struct K2dd t; memset (&t, 0, sizeof t); t.retAccess._ptr = R; t.retAccess._base._ptr = R; t.retAccess._base._stride = 1; \
    t.access._ptr = A; t.access._stride = 1; t.argAccess._ptr = B; t.argAccess._stride = 1
void h_k2dd (void)
{
    SETUP ();
    MK_K2DD (t);
    F_k2dd_execute (&t, in_start, in_end);
    for (unsigned long k = 0; k < NB; k++)
    {
        if (k >= in_start && k < in_end) VF_ASSERT (R[k] == VFOP2 (in_a[k], in_b[k]), "result[k] == apply(arg1[k], arg2[k]) for start <= k < end");
        else VF_ASSERT (R[k] == in_r[k], "result untouched outside [start, end)");
        VF_ASSERT (A[k] == in_a[k] && B[k] == in_b[k], "arguments never written");
    }
    VF_END ();
}
/* K2md: first argument through a mask (index table) */
void h_k2md (void)
{
    SETUP ();
    struct K2md t; memset (&t, 0, sizeof t);
    t.retAccess._ptr = R; t.retAccess._base._ptr = R; t.retAccess._base._stride = 1;
    t.access._ptr = A; t.access._stride = 1; t.access._indices.px = IDX; t.argAccess._ptr = B; t.argAccess._stride = 1;
    F_k2md_execute (&t, in_start, in_end);
    for (unsigned long k = 0; k < NB; k++)
    {
        if (k >= in_start && k < in_end) VF_ASSERT (R[k] == VFOP2 (in_a[in_idx[k]], in_b[k]), "masked argument: result[k] == apply(arg1[indices[k]], arg2[k])");
        else VF_ASSERT (R[k] == in_r[k], "result untouched outside [start, end)");
    }
    VF_END ();
}
/* K1m: result through a mask */
void h_k1m (void)
{
    SETUP ();
    /* a mask index table is injective (distinct positions of the masked array) */
    for (int i = 0; i < NB; i++) for (int j = 0; j < i; j++) VF_ASSUME (IDX[i] != IDX[j]);
    struct K1m t; memset (&t, 0, sizeof t);
    t.retAccess._ptr = R; t.retAccess._base._ptr = R; t.retAccess._base._stride = 1; t.retAccess._base._indices.px = IDX;
    t.access._ptr = A; t.access._stride = 1;
    F_k1m_execute (&t, in_start, in_end);
    for (unsigned long k = 0; k < NB; k++)
    {
        _Bool hit = 0; unsigned long src = 0;
        for (unsigned long j = in_start; j < in_end && j < NB; j++) if (in_idx[j] == k) { hit = 1; src = j; }
        if (hit) VF_ASSERT (R[k] == VFOP1 (in_a[src]), "masked result: result[indices[j]] == apply(arg[j]) for start <= j < end");
        else VF_ASSERT (R[k] == in_r[k], "positions not selected by [start,end) untouched");
    }
    VF_END ();
}
/* KV1: in-place element operation, direct accessors: a[k] = vop (a[k], b[k]) */
void h_kv1 (void)
{
    SETUP ();
    struct KV1 t; memset (&t, 0, sizeof t);
    t.access._ptr = R; t.access._base._ptr = R; t.access._base._stride = 1; t.arg1._ptr = B; t.arg1._stride = 1;
    F_kv1_execute (&t, in_start, in_end);
    for (unsigned long k = 0; k < NB; k++)
    {
        if (k >= in_start && k < in_end) VF_ASSERT (R[k] == VFVOP (in_r[k], in_b[k]), "in-place op: a[k] = apply(a[k], b[k]) for start <= k < end");
        else VF_ASSERT (R[k] == in_r[k], "untouched outside [start, end)");
        VF_ASSERT (B[k] == in_b[k], "argument never written");
    }
    VF_END ();
}
/* KMV1: in-place op on a masked reference a[mask] with an argument of the UNMASKED length: a[idx[j]] = vop (a[idx[j]], b[idx[j]]) */
void h_kmv1 (void)
{
    SETUP ();
    for (int i = 0; i < NB; i++) for (int j = 0; j < i; j++) VF_ASSUME (IDX[i] != IDX[j]);
    struct FixedArray_int fa; memset (&fa, 0, sizeof fa);
    fa._ptr = R; fa._length = in_len; fa._stride = 1; fa._writable = 1; fa._indices.px = IDX; fa._unmaskedLength = NB;
    struct KMV1 t; memset (&t, 0, sizeof t);
    t.access._ptr = R; t.access._base._ptr = R; t.access._base._stride = 1; t.access._base._indices.px = IDX;
    t.arg1._ptr = B; t.arg1._stride = 1; t.array = &fa;
    cxx2c_thrown = 0;
    F_kmv1_execute (&t, in_start, in_end);
    for (unsigned long k = 0; k < NB; k++)
    {
        _Bool hit = 0;
        for (unsigned long j = in_start; j < in_end && j < NB; j++) if (in_idx[j] == k) hit = 1;
        if (hit) VF_ASSERT (R[k] == VFVOP (in_r[k], in_b[k]), "masked in-place op: a[indices[j]] = apply(a[indices[j]], b[indices[j]]) - the argument is indexed by the RAW position");
        else VF_ASSERT (R[k] == in_r[k], "positions not selected by [start,end) untouched");
        VF_ASSERT (B[k] == in_b[k], "argument never written");
    }
    VF_END ();
}
/* partition lemma on the real kernel: any split point, either order == one call over the whole range */
void h_partition (void)
{
    SETUP ();
    VF_IN (unsigned long, in_mid); VF_IN (_Bool, in_rev);
    VF_ASSUME (in_start <= in_mid && in_mid <= in_end);
    MK_K2DD (t);
    if (in_rev) { F_k2dd_execute (&t, in_mid, in_end); F_k2dd_execute (&t, in_start, in_mid); }
    else { F_k2dd_execute (&t, in_start, in_mid); F_k2dd_execute (&t, in_mid, in_end); }
    int R1[NB]; for (int k = 0; k < NB; k++) { R1[k] = R[k]; R[k] = in_r[k]; }
    F_k2dd_execute (&t, in_start, in_end);
    for (int k = 0; k < NB; k++) VF_ASSERT (R1[k] == R[k], "two sub-ranges in either order give exactly the array of one call over their union");
    VF_END ();
}

#ifdef VF_LOOPCONTRACT
/* unbounded: arrays of any length up to 10^6 elements, any [start,end), ghost index k; the loop is closed by its contract */
void h_k2dd_loop (void)
{
    VF_IN (unsigned long, in_n); VF_IN (unsigned long, in_start); VF_IN (unsigned long, in_end); VF_IN (unsigned long, in_k);
    VF_ASSUME (in_n >= 1 && in_n <= 1000000 && in_start <= in_end && in_end <= in_n && in_k < in_n);
    int *r = malloc (in_n * sizeof (int)), *a = malloc (in_n * sizeof (int)), *b = malloc (in_n * sizeof (int));
    VF_ASSUME (r && a && b);
    vf_gk = in_k; vf_ge = VFOP2 (a[in_k], b[in_k]);
    int r0 = r[in_k], a0 = a[in_k], b0 = b[in_k];
    struct K2dd t; memset (&t, 0, sizeof t);
    t.retAccess._ptr = r; t.retAccess._base._ptr = r; t.retAccess._base._stride = 1; t.access._ptr = a; t.access._stride = 1; t.argAccess._ptr = b; t.argAccess._stride = 1;
    F_k2dd_execute (&t, in_start, in_end);
    if (in_k >= in_start && in_k < in_end) VF_ASSERT (r[in_k] == VFOP2 (a0, b0), "result[k] == apply(arg1[k], arg2[k]) for start <= k < end, any array length");
    else VF_ASSERT (r[in_k] == r0, "result[k] untouched for k outside [start,end), any array length");
    VF_ASSERT (a[in_k] == a0 && b[in_k] == b0, "arguments never written");
    VF_END ();
}
#endif
