/* C19: FixedArray<int>::getslice / setitem_scalar / extract_slice_indices - Python slice and integer indexing of plain and masked arrays.
 * CPython enters through an ASSUMED interface (listed in the evidence): PySlice_Check / PyLong_Check answer ghost flags, PySlice_Unpack
 * delivers arbitrary (start, stop, step != 0) or fails, PySlice_AdjustIndices is CPython's reference implementation (Objects/sliceobject.c),
 * PyLong_AsSsize_t delivers an arbitrary integer; FixedArray(length) allocates a fresh writable unmasked array of that length.
 * BOUNDED: arrays of at most NB elements (harness buffers); the element loops are unwound completely for that size. */
#include "vf.h"
#include "c19s_names.h"
#include "c19sx.h"
#ifndef NB
#define NB 6
#endif
typedef struct FixedArray_int FA;
static _Bool g_is_slice, g_is_int, g_unpack_fails;
static long g_int, g_s, g_e, g_step;
static int CXX2C_PySlice_Type;
static int NEWBUF[NB];
static inline int cxx2c_Py_IS_TYPE (void *o, void *t) { (void) o; (void) t; return g_is_slice; }
static inline void *cxx2c_Py_TYPE (void *o) { return o; }
static inline int cxx2c_PyType_HasFeature (void *t, unsigned long f) { (void) t; (void) f; return g_is_int; }
static inline long cxx2c_PyLong_AsSsize_t (void *o) { (void) o; return g_int; }
static inline int cxx2c_PySlice_Unpack (void *sl, long *s, long *e, long *step) { (void) sl; if (g_unpack_fails) return -1; *s = g_s; *e = g_e; *step = g_step; return 0; }
/* CPython 3.11 Objects/sliceobject.c, verbatim logic */
static inline long cxx2c_PySlice_AdjustIndices (long length, long *start, long *stop, long step)
{
    if (*start < 0) { *start += length; if (*start < 0) *start = (step < 0) ? -1 : 0; }
    else if (*start >= length) *start = (step < 0) ? length - 1 : length;
    if (*stop < 0) { *stop += length; if (*stop < 0) *stop = (step < 0) ? -1 : 0; }
    else if (*stop >= length) *stop = (step < 0) ? length - 1 : length;
    if (step < 0) { if (*stop < *start) return (*start - *stop - 1) / (-step) + 1; }
    else { if (*start < *stop) return (*stop - *start - 1) / step + 1; }
    return 0;
}
static inline void cxx2c_fa_ctor_len (FA *f, long length)
{
    memset (f, 0, sizeof *f);
    __CPROVER_assert (length >= 0 && length <= NB, "FixedArray(length): length within the harness bound");
    f->_ptr = NEWBUF; f->_length = (unsigned long) length; f->_stride = 1; f->_writable = 1; f->_unmaskedLength = 0;
    for (int i = 0; i < NB; i++) NEWBUF[i] = 0;
}
#include "c19sx.c"

static int A[2 * NB];
static unsigned long IDX[NB];
/* the element the Python-level index j denotes */
#define ELEM(j) A[(in_masked ? in_idx[(j)] : (unsigned long) (j)) * in_stride]
#define SETUP()                                                                                                     \
    VF_IN_ARR (int, in_a, 2 * NB); VF_IN_ARR (unsigned long, in_idx, NB); VF_IN (unsigned long, in_len); VF_IN (unsigned long, in_stride); \
    VF_IN (_Bool, in_masked); VF_IN (_Bool, in_writable); VF_IN (_Bool, in_is_slice); VF_IN (_Bool, in_is_int); VF_IN (_Bool, in_unpack_fails); \
    VF_IN (long, in_int); VF_IN (long, in_s); VF_IN (long, in_e); VF_IN (long, in_step);                           \
    VF_ASSUME (in_len <= NB && (in_stride == 1 || in_stride == 2) && in_step != 0 && in_step > -9223372036854775807L);  \
    for (int k = 0; k < 2 * NB; k++) A[k] = in_a[k];                                                                \
    for (int k = 0; k < NB; k++) { IDX[k] = in_idx[k]; VF_ASSUME (in_idx[k] < NB); }                                \
    for (int i = 0; i < NB; i++) for (int j = 0; j < i; j++) VF_ASSUME (in_idx[i] != in_idx[j]);                     \
    g_is_slice = in_is_slice; g_is_int = in_is_int; g_unpack_fails = in_unpack_fails; g_int = in_int; g_s = in_s; g_e = in_e; g_step = in_step; \
    FA fa; memset (&fa, 0, sizeof fa); fa._ptr = A; fa._length = in_len; fa._stride = in_stride; fa._writable = in_writable;   \
    if (in_masked) { fa._indices.px = IDX; fa._unmaskedLength = NB; }                                               \
    /* what Python's slice means, from CPython's own adjustment */                                                  \
    long ps = in_s, pe = in_e; long psl = cxx2c_PySlice_AdjustIndices ((long) in_len, &ps, &pe, in_step);           \
    long ci = in_int < 0 ? in_int + (long) in_len : in_int; _Bool int_ok = ci >= 0 && ci < (long) in_len;           \
    _Bool raises = in_is_slice ? in_unpack_fails : (in_is_int ? !int_ok : 1);                                       \
    long n = in_is_slice ? psl : 1, first = in_is_slice ? ps : ci, stp = in_is_slice ? in_step : 1;                 \
    cxx2c_thrown = 0

void h_getslice (void)
{
    SETUP ();
    FA r = F_getslice (&fa, (void *) 0);
    VF_ASSERT ((cxx2c_thrown != 0) == raises, "getslice raises exactly when the index is neither slice nor int, the slice cannot be unpacked, or the integer is out of range");
    if (cxx2c_thrown == 0)
    {
        VF_ASSERT ((long) r._length == n && r._stride == 1 && r._writable && r._indices.px == 0, "getslice returns a fresh writable unmasked array of the slice length");
        for (long k = 0; k < NB; k++) if (k < n) VF_ASSERT (r._ptr[k] == ELEM (first + k * stp), "getslice: element k is the array's element start + k*step (through the mask)");
    }
    for (int k = 0; k < 2 * NB; k++) VF_ASSERT (A[k] == in_a[k], "getslice does not modify the array");
    VF_END ();
}
void h_setitem_scalar (void)
{
    SETUP ();
    VF_IN (int, in_v);
    int v = in_v;
    F_setitem_scalar (&fa, (void *) 0, &v);
    VF_ASSERT ((cxx2c_thrown != 0) == (!in_writable || raises), "setitem_scalar raises exactly for read-only arrays or a bad index");
    VF_ASSERT (!(!in_writable) || cxx2c_thrown == CXX2C_E_std_invalid_argument, "read-only: std::invalid_argument");
    for (unsigned long p = 0; p < 2 * NB; p++)
    {
        _Bool hit = 0;
        if (cxx2c_thrown == 0) for (long k = 0; k < NB; k++) if (k < n && (in_masked ? in_idx[first + k * stp] : (unsigned long) (first + k * stp)) * in_stride == p) hit = 1;
        if (hit) VF_ASSERT (A[p] == in_v, "setitem_scalar stores the value at every selected position");
        else VF_ASSERT (A[p] == in_a[p], "setitem_scalar leaves every other element (and everything, when it raises) unchanged");
    }
    VF_END ();
}
