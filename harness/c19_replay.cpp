// Native replay for the C19 accessor-constructor obligations against the REAL PyImathFixedArray.h
// (linked with boost.python / libpython).  Arguments: name=binary as produced by the check.
#include "PyImathFixedArray.h"
#include <cstdio>
#include <cstring>
#include <string>
using namespace PyImath;
namespace PyImath { template <> int FixedArrayDefaultValue<int>::value () { return 0; } }
static bool arg (int argc, char **argv, const char *name)
{
    for (int i = 1; i < argc; i++) { std::string s (argv[i]); std::string k = std::string (name) + "="; if (s.rfind (k, 0) == 0) return s.find ('1', k.size ()) != std::string::npos; }
    return false;
}
template <class Acc, class Arr> static bool refused (Arr &a) { try { Acc w (a); (void) w; } catch (const std::invalid_argument &) { return true; } return false; }
int main (int argc, char **argv)
{
    bool writable = arg (argc, argv, "in_a_writable"), masked = arg (argc, argv, "in_a_masked");
    FixedArray<int> base (4), mask (4);
    for (int i = 0; i < 4; i++) { base[i] = 10 + i; mask[i] = 1; }
    if (!writable) base.makeReadOnly ();
    FixedArray<int> view (base, mask);
    FixedArray<int> &a = masked ? view : base;
    int fail = 0;
    const char *which = VF_WHICH;
    if (!strcmp (which, "wma_ctor") || !strcmp (which, "all"))
        if (refused<FixedArray<int>::WritableMaskedAccess> (a) != (!masked || !writable)) { printf ("REPRODUCED on real code: WritableMaskedAccess granted on a %s %s array\n", writable ? "writable" : "READ-ONLY", masked ? "masked" : "unmasked"); fail = 1; }
    if (!strcmp (which, "wda_ctor") || !strcmp (which, "all"))
        if (refused<FixedArray<int>::WritableDirectAccess> (a) != (masked || !writable)) { printf ("REPRODUCED on real code: WritableDirectAccess wrongly granted/refused\n"); fail = 1; }
    if (!strcmp (which, "rda_ctor") || !strcmp (which, "all"))
        if (refused<FixedArray<int>::ReadOnlyDirectAccess> ((const FixedArray<int> &) a) != masked) { printf ("REPRODUCED on real code: ReadOnlyDirectAccess wrongly granted/refused\n"); fail = 1; }
    if (!strcmp (which, "rma_ctor") || !strcmp (which, "all"))
        if (refused<FixedArray<int>::ReadOnlyMaskedAccess> ((const FixedArray<int> &) a) != !masked) { printf ("REPRODUCED on real code: ReadOnlyMaskedAccess wrongly granted/refused\n"); fail = 1; }
    if (!fail) printf ("not reproduced\n");
    return fail;
}
