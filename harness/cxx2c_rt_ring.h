/* Ring runtime for RETYPE units (DESIGN 10.1): the extracted text of the FLOAT instantiation is compiled with
 *     #define float int      #define double int
 * so every element-type operation is evaluated in the commutative ring Z/2^32 (two's complement wrap-around).  This file replaces
 * cxx2c_rt.h for such a unit (the harness defines CXX2C_RT_H before the extracted code is included), so that no real floating point
 * is left in the translation unit:
 *   - a / b  is  a * inv(b)  with inv one uninterpreted function ("some element standing for 1/b"): an identity proved this way holds in
 *     every commutative ring for every choice of inv, in particular in the reals with the true inverse; identities that need b * inv(b) == 1
 *     are stated with the residual factor (1 - b * inv(b)) explicit;
 *   - sqrt, and every other libm function, is an uninterpreted ring-valued function; cos is even and sin odd by construction;
 *   - numeric_limits<float>::min/max/lowest/epsilon are arbitrary (uninterpreted) ring constants: they only occur in comparisons, i.e. in
 *     path conditions, and the identities are proved on every path;
 *   - only integer-valued literals may occur in the extracted functions (checked by the property module on every run). */
#ifndef CXX2C_RT_RING_H
#define CXX2C_RT_RING_H
enum
{
    CXX2C_E_none = 0, CXX2C_E_std_domain_error, CXX2C_E_std_invalid_argument, CXX2C_E_std_logic_error, CXX2C_E_std_out_of_range,
    CXX2C_E_std_runtime_error, CXX2C_E_std_overflow_error, CXX2C_E_std_length_error, CXX2C_E_boost_python_error_already_set, CXX2C_E_rethrow
};
#ifndef CXX2C_THROWN_DEFINED
#define CXX2C_THROWN_DEFINED
static int cxx2c_thrown;
#endif
int __CPROVER_uninterpreted_rr_inv (int);
#define IM_ADD(T, a, b) ((int) ((unsigned) (a) + (unsigned) (b)))
#define IM_SUB(T, a, b) ((int) ((unsigned) (a) - (unsigned) (b)))
#define IM_MUL(T, a, b) ((int) ((unsigned) (a) * (unsigned) (b)))
#define IM_NEG(T, a) ((int) (0u - (unsigned) (a)))
#define IM_DIV(T, a, b) ((int) ((unsigned) (a) * (unsigned) __CPROVER_uninterpreted_rr_inv ((int) (b))))
#define RR_UF1(name) int __CPROVER_uninterpreted_rr_##name (int); static inline int cxx2c_##name (int x) { return __CPROVER_uninterpreted_rr_##name (x); }
#define RR_UF2(name) int __CPROVER_uninterpreted_rr_##name (int, int); static inline int cxx2c_##name (int x, int y) { return __CPROVER_uninterpreted_rr_##name (x, y); }
RR_UF1 (sqrtf) RR_UF1 (sqrt) RR_UF1 (tanf) RR_UF1 (tan) RR_UF1 (acosf) RR_UF1 (acos) RR_UF1 (asinf) RR_UF1 (asin) RR_UF1 (atanf) RR_UF1 (atan)
RR_UF1 (logf) RR_UF1 (log) RR_UF1 (expf) RR_UF1 (exp) RR_UF2 (atan2f) RR_UF2 (atan2) RR_UF2 (powf) RR_UF2 (pow) RR_UF2 (fmodf) RR_UF2 (fmod)
int __CPROVER_uninterpreted_rr_cosc (int);
int __CPROVER_uninterpreted_rr_sins (int);
static inline int cxx2c_cosf (int x) { return __CPROVER_uninterpreted_rr_cosc ((int) ((unsigned) x * (unsigned) x)); }
static inline int cxx2c_cos (int x) { return cxx2c_cosf (x); }
static inline int cxx2c_sinf (int x) { return (int) ((unsigned) x * (unsigned) __CPROVER_uninterpreted_rr_sins ((int) ((unsigned) x * (unsigned) x))); }
static inline int cxx2c_sin (int x) { return cxx2c_sinf (x); }
static inline int cxx2c_fabsf (int x) { return x < 0 ? (int) (0u - (unsigned) x) : x; }
static inline int cxx2c_fabs (int x) { return cxx2c_fabsf (x); }
int __CPROVER_uninterpreted_rr_limit (int);
static inline int cxx2c_limit_float_min (void) { return __CPROVER_uninterpreted_rr_limit (0); }
static inline int cxx2c_limit_float_max (void) { return __CPROVER_uninterpreted_rr_limit (1); }
static inline int cxx2c_limit_float_lowest (void) { return __CPROVER_uninterpreted_rr_limit (2); }
static inline int cxx2c_limit_float_epsilon (void) { return __CPROVER_uninterpreted_rr_limit (3); }
#define RR_INV(b) __CPROVER_uninterpreted_rr_inv ((int) (b))
#endif
