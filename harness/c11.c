/* C11: Euler<float> - order encoding and angle-slot permutations (BIT), toMatrix33 vs toMatrix44 and
 * extract(Matrix33) vs extract(Matrix44) (relational, libm and arithmetic abstract). */
#include "vf.h"
#include "c04_spec.h"
#include "c11_names.h"
#ifdef VF_NATIVE
#include "c11x.fwd.c"
#else
#include "c11x.c"
#endif
typedef struct Euler_float EU;
/* the 24 legal orders, from the documented encoding ABCD: A initial axis, B parity even, C initial repeated, D frame static */
#define IS_ORDER(o) (((o) & ~0x3111) == 0 && (((o) >> 12) & 3) <= 2)
#define O_AXIS(o) (((o) >> 12) & 3)
#define O_EVEN(o) ((((o) >> 8) & 1) != 0)
#define O_REP(o) ((((o) >> 4) & 1) != 0)
#define O_STATIC(o) (((o) & 1) != 0)

void F_setOrder (EU *this_, int p) __CPROVER_requires (__CPROVER_rw_ok (this_, sizeof (*this_)) && IS_ORDER (p))
    __CPROVER_assigns (this_->_frameStatic, this_->_initialRepeated, this_->_parityEven, this_->_initialAxis)
    __CPROVER_ensures (this_->_initialAxis == O_AXIS (p) && this_->_parityEven == O_EVEN (p) && this_->_initialRepeated == O_REP (p) && this_->_frameStatic == O_STATIC (p));
int F_order (EU *this_) __CPROVER_requires (__CPROVER_r_ok (this_, sizeof (*this_)) && this_->_initialAxis <= 2) __CPROVER_assigns ()
    __CPROVER_ensures (__CPROVER_return_value == ((this_->_initialAxis << 12) | (this_->_parityEven << 8) | (this_->_initialRepeated << 4) | this_->_frameStatic));
_Bool F_legal (int o) __CPROVER_assigns () __CPROVER_ensures (!IS_ORDER (o) || __CPROVER_return_value);
/* angleOrder: (i,j,k) is the permutation starting at the initial axis, cyclic for even parity, anti-cyclic for odd */
void F_angleOrder (EU *this_, int *i, int *j, int *k)
    __CPROVER_requires (__CPROVER_r_ok (this_, sizeof (*this_)) && this_->_initialAxis <= 2 && __CPROVER_w_ok (i, sizeof (int)) && __CPROVER_w_ok (j, sizeof (int)) && __CPROVER_w_ok (k, sizeof (int)))
    __CPROVER_assigns (*i, *j, *k)
    __CPROVER_ensures (*i == this_->_initialAxis)
    __CPROVER_ensures (*j == (this_->_parityEven ? (*i + 1) % 3 : (*i + 2) % 3) && *k == (this_->_parityEven ? (*i + 2) % 3 : (*i + 1) % 3));
/* angleMapping: the inverse permutation: m[order[n]] == n */
void F_angleMapping (EU *this_, int *i, int *j, int *k)
    __CPROVER_requires (__CPROVER_r_ok (this_, sizeof (*this_)) && this_->_initialAxis <= 2 && __CPROVER_w_ok (i, sizeof (int)) && __CPROVER_w_ok (j, sizeof (int)) && __CPROVER_w_ok (k, sizeof (int)))
    __CPROVER_assigns (*i, *j, *k)
    __CPROVER_ensures (0 <= *i && *i <= 2 && 0 <= *j && *j <= 2 && 0 <= *k && *k <= 2 && *i != *j && *j != *k && *i != *k)
    __CPROVER_ensures ((this_->_initialAxis == 0 ? *i : (this_->_initialAxis == 1 ? *j : *k)) == 0);

#define IN_EU(e) VF_IN (float, in_x); VF_IN (float, in_y); VF_IN (float, in_z); VF_IN (int, in_o); VF_ASSUME (IS_ORDER (in_o)); \
    EU e; memset (&e, 0, sizeof e); e._base.x = in_x; e._base.y = in_y; e._base.z = in_z; \
    e._initialAxis = O_AXIS (in_o); e._parityEven = O_EVEN (in_o); e._initialRepeated = O_REP (in_o); e._frameStatic = O_STATIC (in_o)
void h_setOrder (void) { IN_EU (e); VF_IN (int, in_p); VF_ASSUME (IS_ORDER (in_p)); F_setOrder (&e, in_p);
    VF_POST (e._initialAxis == O_AXIS (in_p) && e._parityEven == O_EVEN (in_p) && e._initialRepeated == O_REP (in_p) && e._frameStatic == O_STATIC (in_p), "setOrder decodes the ABCD encoding"); VF_END (); }
void h_order (void) { IN_EU (e); int r = F_order (&e); VF_POST (r == in_o, "order() re-encodes the bit-fields"); (void) r; VF_END (); }
void h_legal (void) { VF_IN (int, in_o); _Bool r = F_legal (in_o); VF_POST (!IS_ORDER (in_o) || r, "the 24 orders are legal"); (void) r; VF_END (); }
void h_angleOrder (void) { IN_EU (e); int i = -1, j = -1, k = -1; F_angleOrder (&e, &i, &j, &k);
    VF_POST (i == O_AXIS (in_o) && j == (O_EVEN (in_o) ? (i + 1) % 3 : (i + 2) % 3) && k == (O_EVEN (in_o) ? (i + 2) % 3 : (i + 1) % 3), "angleOrder"); VF_END (); }
void h_angleMapping (void) { IN_EU (e); int i = -1, j = -1, k = -1; F_angleMapping (&e, &i, &j, &k);
    VF_POST (i != j && j != k && i != k && i >= 0 && i <= 2 && j >= 0 && j <= 2 && k >= 0 && k <= 2, "angleMapping is a permutation"); VF_END (); }
/* lemmas over the real functions, all 24 orders */
void h_lemma_order_roundtrip (void)
{
    IN_EU (e); VF_IN (int, in_p); VF_ASSUME (IS_ORDER (in_p));
    F_setOrder (&e, in_p);
    VF_ASSERT (F_order (&e) == in_p, "order() returns the order set, for each of the 24 orders");
    VF_ASSERT (FEQ (e._base.x, in_x) && FEQ (e._base.y, in_y) && FEQ (e._base.z, in_z), "setOrder leaves the angles alone");
    VF_END ();
}
void h_lemma_mapping_inverse (void)
{
    IN_EU (e);
    int o[3], m[3];
    F_angleOrder (&e, &o[0], &o[1], &o[2]);
    F_angleMapping (&e, &m[0], &m[1], &m[2]);
    VF_ASSERT (m[o[0]] == 0 && m[o[1]] == 1 && m[o[2]] == 2, "angleMapping is the inverse permutation of angleOrder");
    VF_END ();
}
void h_lemma_xyz_roundtrip (void)
{
    IN_EU (e);
    VF_IN (float, in_vx); VF_IN (float, in_vy); VF_IN (float, in_vz);
    struct Vec3_float v = { in_vx, in_vy, in_vz };
    struct Vec3_float t = F_toXYZVector (&e);
    EU e2 = e; F_setXYZVector (&e2, &t);
    VF_ASSERT (FEQ (e2._base.x, e._base.x) && FEQ (e2._base.y, e._base.y) && FEQ (e2._base.z, e._base.z), "setXYZVector(toXYZVector(e)) == e");
    F_setXYZVector (&e, &v);
    struct Vec3_float b = F_toXYZVector (&e);
    VF_ASSERT (FEQ (b.x, v.x) && FEQ (b.y, v.y) && FEQ (b.z, v.z), "toXYZVector(setXYZVector(v)) == v");
    VF_ASSERT (F_order (&e) == in_o, "the order is untouched");
    VF_END ();
}
/* relational: toMatrix33 and toMatrix44 hold the same 3x3 block and the affine border (sin/cos and arithmetic abstract) */
void h_rel_toMatrix (void)
{
    IN_EU (e);
    struct Matrix33_float a = F_toMatrix33 (&e);
    struct Matrix44_float b = F_toMatrix44 (&e);
    for (int i = 0; i < 3; i++) for (int j = 0; j < 3; j++) VF_ASSERT (FEQ (a.x[i][j], b.x[i][j]), "toMatrix33 and toMatrix44 hold the same rotation block");
    VF_ASSERT (b.x[0][3] == 0 && b.x[1][3] == 0 && b.x[2][3] == 0 && b.x[3][0] == 0 && b.x[3][1] == 0 && b.x[3][2] == 0 && b.x[3][3] == 1, "affine border");
    VF_END ();
}
/* relational: extract from a 3x3 and from a 4x4 with the same block give identical angles */
void h_rel_extract (void)
{
#ifdef ORDC /* one unit per order: the order is a constant, so the axis indices are constants */
    VF_IN (float, in_x); VF_IN (float, in_y); VF_IN (float, in_z);
    EU e; memset (&e, 0, sizeof e); e._base.x = in_x; e._base.y = in_y; e._base.z = in_z;
    e._initialAxis = O_AXIS (ORDC); e._parityEven = O_EVEN (ORDC); e._initialRepeated = O_REP (ORDC); e._frameStatic = O_STATIC (ORDC);
#else
    IN_EU (e);
#endif
    VF_IN_ARR (float, in_m, 9);
    struct Matrix33_float a; struct Matrix44_float b; memset (&b, 0, sizeof b);
    for (int i = 0; i < 3; i++) for (int j = 0; j < 3; j++) { a.x[i][j] = in_m[3 * i + j]; b.x[i][j] = in_m[3 * i + j]; }
    b.x[3][3] = 1;
    EU e2 = e;
    F_extract33 (&e, &a);
    F_extract44 (&e2, &b);
    VF_ASSERT (FEQ (e._base.x, e2._base.x) && FEQ (e._base.y, e2._base.y) && FEQ (e._base.z, e2._base.z), "extract(Matrix33) and extract(Matrix44) give identical angles");
    VF_END ();
}
