/* C07 / C06, Matrix44<float>: the four inverse()/invert() copies against each other and against gjInverse, MODULARLY: gjInverse() and
 * gjInverse(bool) are not inlined but used through an assumed interface (their bodies are Gauss-Jordan loops; two inlined copies exhaust
 * the solvers):  there is one "singular" predicate S(m) and one result G(m), both uninterpreted functions of the 16 entries;
 *   gjInverse()        = S(m) ? identity : G(m)
 *   gjInverse(singExc) = S(m) ? (singExc ? throw std::invalid_argument : identity) : G(m)
 * (that the two real gj copies relate like this is C07's clause for gjInverse itself - stated, not proved here; see NOT_COVERED).
 * Arithmetic uninterpreted (mode ABS). */
#include "vf.h"
#include "c04_spec.h"
#include "c07m_names.h"
#if defined(VF_NATIVE)
#include "c07m4x.fwd.c"
typedef struct Matrix44_float M44;
#else
#include "c07m4.h"
typedef struct Matrix44_float M44;
#define F16 float, float, float, float, float, float, float, float, float, float, float, float, float, float, float, float
#define MARGS(m) (m)->x[0][0], (m)->x[0][1], (m)->x[0][2], (m)->x[0][3], (m)->x[1][0], (m)->x[1][1], (m)->x[1][2], (m)->x[1][3], (m)->x[2][0], (m)->x[2][1], (m)->x[2][2], (m)->x[2][3], (m)->x[3][0], (m)->x[3][1], (m)->x[3][2], (m)->x[3][3]
int __CPROVER_uninterpreted_gjsing (F16);
#define GJ(k) float __CPROVER_uninterpreted_gj##k (F16);
GJ (0) GJ (1) GJ (2) GJ (3) GJ (4) GJ (5) GJ (6) GJ (7) GJ (8) GJ (9) GJ (10) GJ (11) GJ (12) GJ (13) GJ (14) GJ (15)
static inline M44 gj_ident (void) { M44 r; memset (&r, 0, sizeof r); r.x[0][0] = r.x[1][1] = r.x[2][2] = r.x[3][3] = 1; return r; }
static inline M44 gj_G (M44 *m)
{
    M44 r;
#define SETG(k) r.x[k / 4][k % 4] = __CPROVER_uninterpreted_gj##k (MARGS (m));
    SETG (0) SETG (1) SETG (2) SETG (3) SETG (4) SETG (5) SETG (6) SETG (7) SETG (8) SETG (9) SETG (10) SETG (11) SETG (12) SETG (13) SETG (14) SETG (15)
    return r;
}
M44 cxx2c_m44_gj0 (M44 *m) { if (__CPROVER_uninterpreted_gjsing (MARGS (m)) != 0) return gj_ident (); return gj_G (m); }
M44 cxx2c_m44_gjb (M44 *m, _Bool singExc)
{
    if (__CPROVER_uninterpreted_gjsing (MARGS (m)) != 0)
    {
        if (singExc) { cxx2c_thrown = CXX2C_E_std_invalid_argument; M44 z; memset (&z, 0, sizeof z); return z; }
        return gj_ident ();
    }
    return gj_G (m);
}
#include "c07m4.c"
#undef F_gjInverse0
#define F_gjInverse0 cxx2c_m44_gj0
#endif
#define MEQ(A, B) (FEQ ((A).x[0][0], (B).x[0][0]) && FEQ ((A).x[0][1], (B).x[0][1]) && FEQ ((A).x[0][2], (B).x[0][2]) && FEQ ((A).x[0][3], (B).x[0][3]) \
    && FEQ ((A).x[1][0], (B).x[1][0]) && FEQ ((A).x[1][1], (B).x[1][1]) && FEQ ((A).x[1][2], (B).x[1][2]) && FEQ ((A).x[1][3], (B).x[1][3]) \
    && FEQ ((A).x[2][0], (B).x[2][0]) && FEQ ((A).x[2][1], (B).x[2][1]) && FEQ ((A).x[2][2], (B).x[2][2]) && FEQ ((A).x[2][3], (B).x[2][3]) \
    && FEQ ((A).x[3][0], (B).x[3][0]) && FEQ ((A).x[3][1], (B).x[3][1]) && FEQ ((A).x[3][2], (B).x[3][2]) && FEQ ((A).x[3][3], (B).x[3][3]))
#define MID(A) ((A).x[0][0] == 1 && (A).x[0][1] == 0 && (A).x[0][2] == 0 && (A).x[0][3] == 0 && (A).x[1][0] == 0 && (A).x[1][1] == 1 && (A).x[1][2] == 0 && (A).x[1][3] == 0 \
    && (A).x[2][0] == 0 && (A).x[2][1] == 0 && (A).x[2][2] == 1 && (A).x[2][3] == 0 && (A).x[3][0] == 0 && (A).x[3][1] == 0 && (A).x[3][2] == 0 && (A).x[3][3] == 1)
#define IN_M() VF_IN_ARR (float, in_m, 16); M44 m; memset (&m, 0, sizeof m); for (int i = 0; i < 16; i++) m.x[i / 4][i % 4] = in_m[i]; M44 m0 = m; (void) m0

void h_m44_inverseb (void)
{
    IN_M (); VF_IN (_Bool, in_exc);
    cxx2c_thrown = 0;
    M44 r = F_inverseb (&m, in_exc);
    int thrown = cxx2c_thrown; cxx2c_thrown = 0;
    M44 p = F_inverse0 (&m0);
    VF_ASSERT (in_exc || thrown == 0, "no exception without singExc");
    VF_ASSERT (thrown == 0 || thrown == CXX2C_E_std_invalid_argument, "exception kind std::invalid_argument");
    VF_ASSERT (thrown != 0 || MEQ (r, p), "Matrix44::inverse(singExc) identical to inverse() whenever it returns");
    VF_ASSERT (thrown == 0 || MID (p), "Matrix44::inverse(singExc) throws only where inverse() returns the identity");
    VF_END ();
}
void h_m44_invertb (void)
{
    IN_M (); VF_IN (_Bool, in_exc);
    cxx2c_thrown = 0;
    F_invertb (&m, in_exc);
    int thrown = cxx2c_thrown; cxx2c_thrown = 0;
    M44 p = F_inverse0 (&m0);
    VF_ASSERT (thrown != 0 || MEQ (m, p), "Matrix44::invert(singExc) leaves what inverse() returns");
    VF_END ();
}
void h_m44_invert0 (void)
{
    IN_M ();
    F_invert0 (&m);
    M44 p = F_inverse0 (&m0);
    VF_ASSERT (MEQ (m, p), "Matrix44::invert() leaves what inverse() returns");
    VF_END ();
}
/* C06 / C07 guard placement: the affine fast path is taken exactly for last column (0,0,0,1); everything else goes to Gauss-Jordan */
void h_m44_guard (void)
{
    IN_M ();
    VF_ASSUME (!(m.x[0][3] == 0 && m.x[1][3] == 0 && m.x[2][3] == 0 && m.x[3][3] == 1));
    M44 r = F_inverse0 (&m);
    M44 g = F_gjInverse0 (&m0);
    VF_ASSERT (MEQ (r, g), "Matrix44::inverse() is gjInverse() whenever the last column is not (0,0,0,1)");
    cxx2c_thrown = 0;
    M44 rb = F_inverseb (&m, 0);
    VF_ASSERT (MEQ (rb, g), "Matrix44::inverse(false) is gjInverse() whenever the last column is not (0,0,0,1)");
    VF_END ();
}
