/* C14: ray-box and line-box intersection (ImathBoxAlgo.h), T = float */
#include "vf.h"
#include "c04_spec.h"
#include "c14_names.h"
#ifdef VF_NATIVE
#include "c14x.fwd.c"
#else
#include "c14x.c"
#endif
typedef struct Box_Vec3_float BX;
typedef struct Line3_float LN;
typedef struct Vec3_float V3;
#define FINV(v) ((v).x >= -3.4028234664e38f && (v).x <= 3.4028234664e38f && (v).y >= -3.4028234664e38f && (v).y <= 3.4028234664e38f && (v).z >= -3.4028234664e38f && (v).z <= 3.4028234664e38f)
#define EMPTYB(b) ((b).max.x < (b).min.x || (b).max.y < (b).min.y || (b).max.z < (b).min.z)
#define INBOX(b, p) ((b).min.x <= (p).x && (p).x <= (b).max.x && (b).min.y <= (p).y && (p).y <= (b).max.y && (b).min.z <= (p).z && (p).z <= (b).max.z)
#define VEQ3(a, b) (FEQ ((a).x, (b).x) && FEQ ((a).y, (b).y) && FEQ ((a).z, (b).z))

#define SETUP()                                                                                   \
    VF_IN_ARR (float, in_b, 6); VF_IN_ARR (float, in_p, 3); VF_IN_ARR (float, in_d, 3);            \
    BX b; memset (&b, 0, sizeof b); b.min.x = in_b[0]; b.min.y = in_b[1]; b.min.z = in_b[2]; b.max.x = in_b[3]; b.max.y = in_b[4]; b.max.z = in_b[5]; \
    LN r; memset (&r, 0, sizeof r); r.pos.x = in_p[0]; r.pos.y = in_p[1]; r.pos.z = in_p[2]; r.dir.x = in_d[0]; r.dir.y = in_d[1]; r.dir.z = in_d[2]; \
    VF_ASSUME (FINV (b.min) && FINV (b.max) && FINV (r.pos) && FINV (r.dir))

/* contracts: frame and the clauses that need no geometry */
_Bool F_intersects_ip (BX *b, LN *r, V3 *ip)
    __CPROVER_requires (__CPROVER_r_ok (b, sizeof (*b)) && __CPROVER_r_ok (r, sizeof (*r)) && __CPROVER_rw_ok (ip, sizeof (*ip)) && FINV (b->min) && FINV (b->max) && FINV (r->pos) && FINV (r->dir))
    __CPROVER_assigns (*ip)
    __CPROVER_ensures (!EMPTYB (*b) || !__CPROVER_return_value)                                              /* false for empty boxes */
    __CPROVER_ensures (!(!EMPTYB (*b) && INBOX (*b, r->pos)) || (__CPROVER_return_value && VEQ3 (*ip, r->pos)));  /* origin inside: true, ip is the origin */
_Bool F_entryexit (LN *r, BX *b, V3 *entry, V3 *exit)
    __CPROVER_requires (__CPROVER_r_ok (b, sizeof (*b)) && __CPROVER_r_ok (r, sizeof (*r)) && __CPROVER_rw_ok (entry, sizeof (*entry)) && __CPROVER_rw_ok (exit, sizeof (*exit)) && FINV (b->min) && FINV (b->max) && FINV (r->pos) && FINV (r->dir))
    __CPROVER_assigns (*entry, *exit)
    __CPROVER_ensures (!EMPTYB (*b) || !__CPROVER_return_value);

void h_intersects_ip (void)
{
    SETUP ();
    V3 ip = { 0, 0, 0 };
    _Bool res = F_intersects_ip (&b, &r, &ip);
    VF_POST (!EMPTYB (b) || !res, "intersects(box, ray, ip) is false for empty boxes");
    VF_POST (!(!EMPTYB (b) && INBOX (b, r.pos)) || (res && VEQ3 (ip, r.pos)), "origin inside the box: true and ip is the origin");
    VF_END ();
}
void h_entryexit (void)
{
    SETUP ();
    V3 en = { 0, 0, 0 }, ex = { 0, 0, 0 };
    _Bool res = F_entryexit (&r, &b, &en, &ex);
    VF_POST (!EMPTYB (b) || !res, "findEntryAndExitPoints is false for empty boxes");
    VF_END ();
}
/* lemma over the real functions: every reported point lies in the closed box */
void h_lemma_ip_in_box (void)
{
    SETUP ();
    V3 ip = { 0, 0, 0 };
    _Bool res = F_intersects_ip (&b, &r, &ip);
    VF_ASSERT (!res || INBOX (b, ip), "when intersects(box, ray, ip) is true, ip lies in the closed box");
    VF_END ();
}
void h_lemma_entryexit_in_box (void)
{
    SETUP ();
    /* Line3's invariant: the direction is a unit vector (to rounding).  With dir == 0, or a direction so short that every quotient is
     * refused by the overflow guards, no face is ever crossed and entry / exit stay unset although true is returned. */
    { float n2 = r.dir.x * r.dir.x + r.dir.y * r.dir.y + r.dir.z * r.dir.z; VF_ASSUME (n2 >= 0.99f && n2 <= 1.01f); }
#ifdef C14_SPAN
    /* and a box / origin whose coordinate differences cannot overflow */
    VF_ASSUME (fabsf (b.min.x) <= 1e37f && fabsf (b.min.y) <= 1e37f && fabsf (b.min.z) <= 1e37f && fabsf (b.max.x) <= 1e37f && fabsf (b.max.y) <= 1e37f && fabsf (b.max.z) <= 1e37f
               && fabsf (r.pos.x) <= 1e37f && fabsf (r.pos.y) <= 1e37f && fabsf (r.pos.z) <= 1e37f);
#endif
    V3 en = { 0, 0, 0 }, ex = { 0, 0, 0 };
    _Bool res = F_entryexit (&r, &b, &en, &ex);
    VF_ASSERT (!res || (INBOX (b, en) && INBOX (b, ex)), "when findEntryAndExitPoints is true, entry and exit lie in the closed box");
    VF_END ();
}
/* lemma: the two-argument form is the boolean of the three-argument form */
void h_lemma_wrapper (void)
{
    SETUP ();
    V3 ip = { 0, 0, 0 };
    _Bool r3 = F_intersects_ip (&b, &r, &ip);
    _Bool r2 = F_intersects (&b, &r);
    VF_ASSERT (r2 == r3, "intersects(box, ray) == intersects(box, ray, ip)");
    VF_END ();
}
/* lemmas: the three per-axis blocks are the same code up to renaming - relabelling the axes cyclically (x <- y <- z <- x) on the
 * box and the line must not change the answer (the accumulators are a max / min over the axes and NaN never enters them because
 * the updates use strict comparisons, so the order of the blocks is immaterial); arithmetic uninterpreted */
#define CYC(v) do { float t_ = (v).x; (v).x = (v).y; (v).y = (v).z; (v).z = t_; } while (0)
void h_lemma_perm_entryexit (void)
{
    SETUP ();
    V3 en = { 0, 0, 0 }, ex = { 0, 0, 0 }, en2 = { 0, 0, 0 }, ex2 = { 0, 0, 0 };
    _Bool r1 = F_entryexit (&r, &b, &en, &ex);
    BX b2 = b; LN l2 = r; CYC (b2.min); CYC (b2.max); CYC (l2.pos); CYC (l2.dir);
    _Bool r2 = F_entryexit (&l2, &b2, &en2, &ex2);
    VF_ASSERT (r1 == r2, "findEntryAndExitPoints: relabelling the axes does not change the answer");
    VF_END ();
}
void h_lemma_perm_intersects (void)
{
    SETUP ();
    V3 ip = { 0, 0, 0 }, ip2 = { 0, 0, 0 };
    _Bool r1 = F_intersects_ip (&b, &r, &ip);
    BX b2 = b; LN l2 = r; CYC (b2.min); CYC (b2.max); CYC (l2.pos); CYC (l2.dir);
    _Bool r2 = F_intersects_ip (&b2, &l2, &ip2);
    VF_ASSERT (r1 == r2, "intersects(box, ray, ip): relabelling the axes does not change the answer");
    VF_END ();
}
