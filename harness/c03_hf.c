/* C03: halfFunction<float> - the table built by the constructor holds, for EVERY one of the 65536 bit patterns, f(x) for finite x inside
 * [domainMin, domainMax] and the designated default / +inf / -inf / NaN values otherwise, and operator() reads that entry.
 * The constructor's loop is closed by a loop contract (inserted into the extracted text by c03.py): invariant with a ghost index,
 * assigns, decreases - no unwinding.  f is an uninterpreted pure function of the argument's bits. */
#include "vf.h"
#include "spec_half.h"
#include "c03hf_names.h"
#include "c03hfx.h"
static unsigned long vf_gk; /* ghost index */
static unsigned int vf_ge;  /* ghost: bits of the specified table entry at vf_gk */
float __CPROVER_uninterpreted_vfhf (unsigned short);
static inline float cxx2c_vfhf (struct VfHF *f, struct half x) { (void) f; return __CPROVER_uninterpreted_vfhf (x._h); }
#include "c03hf_lc.c"
static inline unsigned int fbits (float f) { unsigned int u; memcpy (&u, &f, sizeof u); return u; }
static inline float bitsf (unsigned int u) { float f; memcpy (&f, &u, sizeof f); return f; }
/* the property's table entry for pattern k */
static inline float spec_entry (unsigned short k, unsigned short lo, unsigned short hi, float dflt, float pinf, float ninf, float nan)
{
    int c = spec_half_class (k);
    if (c == SPEC_HC_NAN) return nan;
    if (c == SPEC_HC_INF) return (k & 0x8000u) ? ninf : pinf;
    float x = bitsf (spec_h2f (k)), l = bitsf (spec_h2f (lo)), h = bitsf (spec_h2f (hi));
    if (x < l || x > h) return dflt;
    return __CPROVER_uninterpreted_vfhf (k);
}
static struct halfFunction_float T;
void h_hf (void)
{
    VF_IN (unsigned short, in_lo); VF_IN (unsigned short, in_hi); VF_IN (float, in_dflt); VF_IN (float, in_pinf); VF_IN (float, in_ninf); VF_IN (float, in_nan);
    VF_IN (unsigned short, in_k);
    struct VfHF f; memset (&f, 0, sizeof f);
    struct half lo = { in_lo }, hi = { in_hi };
    float e = spec_entry (in_k, in_lo, in_hi, in_dflt, in_pinf, in_ninf, in_nan);
    vf_gk = in_k; vf_ge = fbits (e);
    F_hf_ctor (&T, f, lo, hi, in_dflt, in_pinf, in_ninf, in_nan);
    VF_ASSERT (fbits (T._lut[in_k]) == fbits (e), "halfFunction: table entry k is f(x) inside the domain and the designated default / +inf / -inf / NaN value otherwise, for every bit pattern k");
    struct half x = { in_k };
    VF_ASSERT (fbits (F_hf_call (&T, x)) == fbits (T._lut[in_k]), "halfFunction::operator()(x) reads the entry of x's bit pattern");
    VF_END ();
}
