/* C13, ImathBoxAlgo.h: clip / closestPointInBox return the nearest point of the box; closestPointOnBox a point of its
 * surface (the point itself for an empty box).  T = float, Vec3; clip additionally at Vec2. */
#include "vf.h"
#include "c04_spec.h"
#include "c13a_names.h"
#ifdef VF_NATIVE
#include "c13ax.fwd.c"
#else
#include "c13ax.c"
#endif
typedef struct Vec3_float V3;
typedef struct Box_Vec3_float B3;
#define FMX 3.40282346638528859812e+38F
#define FINF(x) ((x) >= -FMX && (x) <= FMX)
#define FINV(v) (FINF ((v).x) && FINF ((v).y) && FINF ((v).z))
#define NONEMPTY(b) ((b).min.x <= (b).max.x && (b).min.y <= (b).max.y && (b).min.z <= (b).max.z)
#define EMPTYB(b) ((b).max.x < (b).min.x || (b).max.y < (b).min.y || (b).max.z < (b).min.z)
#define MEM(b, p) ((b).min.x <= (p).x && (p).x <= (b).max.x && (b).min.y <= (p).y && (p).y <= (b).max.y && (b).min.z <= (p).z && (p).z <= (b).max.z)
#define CLAMP1(a, l, h) ((a) < (l) ? (l) : ((a) > (h) ? (h) : (a)))
#define VEQ(a, b) (FEQ ((a).x, (b).x) && FEQ ((a).y, (b).y) && FEQ ((a).z, (b).z))

/* clip: per axis the clamp of the coordinate into [min, max] */
V3 F_clip3 (V3 *p, B3 *box) __CPROVER_requires (__CPROVER_r_ok (p, sizeof (*p)) && __CPROVER_r_ok (box, sizeof (*box)) && FINV (*p) && FINV (box->min) && FINV (box->max)) __CPROVER_assigns ()
    __CPROVER_ensures (FEQ (__CPROVER_return_value.x, CLAMP1 (p->x, box->min.x, box->max.x)) && FEQ (__CPROVER_return_value.y, CLAMP1 (p->y, box->min.y, box->max.y)) && FEQ (__CPROVER_return_value.z, CLAMP1 (p->z, box->min.z, box->max.z)));
V3 F_cpin3 (V3 *p, B3 *box) __CPROVER_requires (__CPROVER_r_ok (p, sizeof (*p)) && __CPROVER_r_ok (box, sizeof (*box)) && FINV (*p) && FINV (box->min) && FINV (box->max)) __CPROVER_assigns ()
    __CPROVER_ensures (FEQ (__CPROVER_return_value.x, CLAMP1 (p->x, box->min.x, box->max.x)) && FEQ (__CPROVER_return_value.y, CLAMP1 (p->y, box->min.y, box->max.y)) && FEQ (__CPROVER_return_value.z, CLAMP1 (p->z, box->min.z, box->max.z)));
/* closestPointOnBox: the point itself for an empty box; otherwise a member of the box lying on its surface */
#define ONSURF(b, q) ((q).x == (b).min.x || (q).x == (b).max.x || (q).y == (b).min.y || (q).y == (b).max.y || (q).z == (b).min.z || (q).z == (b).max.z)
V3 F_cpon3 (V3 *p, B3 *box) __CPROVER_requires (__CPROVER_r_ok (p, sizeof (*p)) && __CPROVER_r_ok (box, sizeof (*box)) && FINV (*p) && FINV (box->min) && FINV (box->max)) __CPROVER_assigns ()
    __CPROVER_ensures (!EMPTYB (*box) || VEQ (__CPROVER_return_value, *p))
    __CPROVER_ensures (EMPTYB (*box) || (MEM (*box, __CPROVER_return_value) && ONSURF (*box, __CPROVER_return_value)))
    /* a point outside the box goes to its clip; a point inside moves along exactly one axis */
    __CPROVER_ensures (EMPTYB (*box) || MEM (*box, *p) || (FEQ (__CPROVER_return_value.x, CLAMP1 (p->x, box->min.x, box->max.x)) && FEQ (__CPROVER_return_value.y, CLAMP1 (p->y, box->min.y, box->max.y)) && FEQ (__CPROVER_return_value.z, CLAMP1 (p->z, box->min.z, box->max.z))))
    __CPROVER_ensures (EMPTYB (*box) || !MEM (*box, *p) || ((__CPROVER_return_value.x != p->x) + (__CPROVER_return_value.y != p->y) + (__CPROVER_return_value.z != p->z) <= 1));

#define SETUP() VF_IN_ARR (float, in_p, 3); VF_IN_ARR (float, in_b, 6); V3 p = { in_p[0], in_p[1], in_p[2] }; B3 b; b.min.x = in_b[0]; b.min.y = in_b[1]; b.min.z = in_b[2]; b.max.x = in_b[3]; b.max.y = in_b[4]; b.max.z = in_b[5]; \
    VF_ASSUME (FINV (p) && FINV (b.min) && FINV (b.max))
void h_clip3 (void) { SETUP (); V3 r = F_clip3 (&p, &b); VF_POST (FEQ (r.x, CLAMP1 (p.x, b.min.x, b.max.x)) && FEQ (r.y, CLAMP1 (p.y, b.min.y, b.max.y)) && FEQ (r.z, CLAMP1 (p.z, b.min.z, b.max.z)), "clip clamps per axis"); (void) r; VF_END (); }
void h_cpin3 (void) { SETUP (); V3 r = F_cpin3 (&p, &b); VF_POST (FEQ (r.x, CLAMP1 (p.x, b.min.x, b.max.x)) && FEQ (r.y, CLAMP1 (p.y, b.min.y, b.max.y)) && FEQ (r.z, CLAMP1 (p.z, b.min.z, b.max.z)), "closestPointInBox clamps per axis"); (void) r; VF_END (); }
void h_cpon3 (void)
{
    SETUP ();
    V3 r = F_cpon3 (&p, &b);
    VF_POST (!EMPTYB (b) || VEQ (r, p), "closestPointOnBox returns the point itself for an empty box");
    VF_POST (EMPTYB (b) || (MEM (b, r) && ONSURF (b, r)), "closestPointOnBox returns a point of the box's surface");
    VF_POST (EMPTYB (b) || !MEM (b, p) || ((r.x != p.x) + (r.y != p.y) + (r.z != p.z) <= 1), "an interior point moves along one axis only");
    (void) r; VF_END ();
}
/* lemma from clip's contract: the result is a member of a non-empty box and no member is nearer on any axis (nearest point) */
void h_lemma_clip_nearest (void)
{
    SETUP ();
    VF_IN_ARR (float, in_q, 3); V3 q = { in_q[0], in_q[1], in_q[2] };
    VF_ASSUME (FINV (q) && NONEMPTY (b) && MEM (b, q));
    V3 r = F_clip3 (&p, &b);
    VF_ASSERT (MEM (b, r), "clip(p) lies in the box");
    /* per-axis distances compared without subtraction: r is between p and q, or equal to p */
#define BETWEEN(rc, pc, qc) (((pc) <= (rc) && (rc) <= (qc)) || ((qc) <= (rc) && (rc) <= (pc)))
    VF_ASSERT (BETWEEN (r.x, p.x, q.x) && BETWEEN (r.y, p.y, q.y) && BETWEEN (r.z, p.z, q.z), "on every axis clip(p) is at least as near to p as any member q of the box");
    VF_ASSERT (!MEM (b, p) || VEQ (r, p) || (r.x == p.x && r.y == p.y && r.z == p.z), "a member of the box is returned unchanged");
    VF_END ();
}
/* lemma for closestPointOnBox, interior point: the moved axis is a nearest face */
void h_lemma_cpon_nearest_face (void)
{
    SETUP ();
    VF_ASSUME (NONEMPTY (b) && MEM (b, p));
    V3 r = F_cpon3 (&p, &b);
    /* the distance moved equals the smallest of the six face distances d (computed as the library does: p - min, max - p) */
    float dx1 = p.x - b.min.x, dx2 = b.max.x - p.x, dy1 = p.y - b.min.y, dy2 = b.max.y - p.y, dz1 = p.z - b.min.z, dz2 = b.max.z - p.z;
    float dmin = dx1; if (dx2 < dmin) dmin = dx2; if (dy1 < dmin) dmin = dy1; if (dy2 < dmin) dmin = dy2; if (dz1 < dmin) dmin = dz1; if (dz2 < dmin) dmin = dz2;
    float moved = (r.x != p.x) ? (r.x == b.min.x ? dx1 : dx2) : ((r.y != p.y) ? (r.y == b.min.y ? dy1 : dy2) : ((r.z != p.z) ? (r.z == b.min.z ? dz1 : dz2) : 0.0f));
    VF_ASSERT (moved <= dmin || (r.x == p.x && r.y == p.y && r.z == p.z && dmin == 0.0f) || moved == dmin, "an interior point goes to a nearest face");
    VF_END ();
}
