// Native replay for the C20 kernel units against the REAL PyImathAutovectorize.h / PyImathFixedArray.h (linked with boost.python /
// libpython).  Arguments: name=binary as produced by the check.  The uninterpreted element operations of the proof are replaced by
// concrete injective-looking ones; the oracle is the scalar loop over the selected positions.
#include <Python.h>
#include "PyImathFixedArray.h"
#include "PyImathAutovectorize.h"
#include <cstdio>
#include <cstring>
#include <string>
#include <vector>
#include <algorithm>
using namespace PyImath;
struct Op2 { static int apply (const int &a, const int &b) { return a * 31 + b * 17 + 5; } };
struct Op1 { static int apply (const int &a) { return a * 7 + 3; } };
struct VOp { static void apply (int &a, const int &b) { a = a * 13 + b; } };
static int g_argc; static char **g_argv;
static long long val (const std::string &name, long long dflt)
{
    std::string k = name + "=";
    for (int i = 1; i < g_argc; i++)
    {
        std::string s (g_argv[i]);
        if (s.rfind (k, 0) == 0) { std::string b = s.substr (k.size ()); unsigned long long v = 0; for (char c : b) v = (v << 1) | (c == '1'); if (b.size () == 32) return (int) (unsigned) v; return (long long) v; }
    }
    return dflt;
}
typedef FixedArray<int> FA;
int main (int argc, char **argv)
{
    g_argc = argc; g_argv = argv;
    if (argc > 1 && !strcmp (argv[1], "--types"))
    {
        for (int k = 0; k < VF_NB; k++) printf ("VF_TYPE in_r[%d] int 4\nVF_TYPE in_a[%d] int 4\nVF_TYPE in_b[%d] int 4\nVF_TYPE in_idx[%d] unsigned long 8\n", k, k, k, k);
        printf ("VF_TYPE in_len unsigned long 8\nVF_TYPE in_start unsigned long 8\nVF_TYPE in_end unsigned long 8\nVF_TYPE in_mid unsigned long 8\nVF_TYPE in_rev _Bool 1\n");
        return 0;
    }
    const int NBUF = VF_NB;
    const char *which = VF_WHICH;
    size_t len = (size_t) (val ("in_len", NBUF) % (NBUF + 1)), start = (size_t) val ("in_start", 0), end = (size_t) val ("in_end", len);
    if (!(start <= end && end <= len)) { start = start % (len + 1); end = start + end % (len - start + 1); } /* random search inputs: fold into a valid range */
    std::vector<int> r0 (NBUF), a0 (NBUF), b0 (NBUF);
    for (int k = 0; k < NBUF; k++) { r0[k] = (int) val ("in_r[" + std::to_string (k) + "]", 100 + k); a0[k] = (int) val ("in_a[" + std::to_string (k) + "]", 200 + 3 * k); b0[k] = (int) val ("in_b[" + std::to_string (k) + "]", 300 + 7 * k); }
    // a mask selecting `len` positions: those the counterexample's index table names (a real mask yields them in increasing order)
    std::vector<int> sel (NBUF, 0); size_t cnt = 0;
    for (size_t k = 0; k < len; k++) { size_t p = (size_t) (val ("in_idx[" + std::to_string (k) + "]", k) % NBUF); if (!sel[p]) { sel[p] = 1; cnt++; } }
    for (int p = 0; p < NBUF && cnt < len; p++) if (!sel[p]) { sel[p] = 1; cnt++; }
    std::vector<size_t> idx; for (int p = 0; p < NBUF; p++) if (sel[p]) idx.push_back (p);
    FA R (NBUF), A (NBUF), B (NBUF), M (NBUF);
    for (int k = 0; k < NBUF; k++) { R[k] = r0[k]; A[k] = a0[k]; B[k] = b0[k]; M[k] = sel[k]; }
    std::vector<int> expect = r0;
    int fail = 0;
    bool masked_len = !strcmp (which, "k2md") || !strcmp (which, "k1m") || !strcmp (which, "kmv1");
    if (!masked_len) { len = NBUF; if (!(start <= end && end <= len)) { start = start % (len + 1); end = start + end % (len - start + 1); } }
    if (!strcmp (which, "k2dd") || !strcmp (which, "partition") || !strcmp (which, "k2dd_loop"))
    {
        FA::WritableDirectAccess ra (R); FA::ReadOnlyDirectAccess aa (A), ba (B);
        detail::VectorizedOperation2<Op2, FA::WritableDirectAccess, FA::ReadOnlyDirectAccess, FA::ReadOnlyDirectAccess> t (ra, aa, ba);
        if (!strcmp (which, "partition")) { size_t mid = (size_t) val ("in_mid", (start + end) / 2); if (mid < start) mid = start; if (mid > end) mid = end; if (val ("in_rev", 0)) { t.execute (mid, end); t.execute (start, mid); } else { t.execute (start, mid); t.execute (mid, end); } }
        else t.execute (start, end);
        for (size_t k = start; k < end; k++) expect[k] = Op2::apply (a0[k], b0[k]);
    }
    else if (!strcmp (which, "k2md"))
    {
        FA Am (A, M);
        FA::WritableDirectAccess ra (R); FA::ReadOnlyMaskedAccess aa (Am); FA::ReadOnlyDirectAccess ba (B);
        detail::VectorizedOperation2<Op2, FA::WritableDirectAccess, FA::ReadOnlyMaskedAccess, FA::ReadOnlyDirectAccess> t (ra, aa, ba);
        t.execute (start, end);
        for (size_t k = start; k < end; k++) expect[k] = Op2::apply (a0[idx[k]], b0[k]);
    }
    else if (!strcmp (which, "k1m"))
    {
        FA Rm (R, M);
        FA::WritableMaskedAccess ra (Rm); FA::ReadOnlyDirectAccess aa (A);
        detail::VectorizedOperation1<Op1, FA::WritableMaskedAccess, FA::ReadOnlyDirectAccess> t (ra, aa);
        t.execute (start, end);
        for (size_t k = start; k < end; k++) expect[idx[k]] = Op1::apply (a0[k]);
    }
    else if (!strcmp (which, "kv1"))
    {
        FA::WritableDirectAccess ra (R); FA::ReadOnlyDirectAccess ba (B);
        detail::VectorizedVoidOperation1<VOp, FA::WritableDirectAccess, FA::ReadOnlyDirectAccess> t (ra, ba);
        t.execute (start, end);
        for (size_t k = start; k < end; k++) VOp::apply (expect[k], b0[k]);
    }
    else if (!strcmp (which, "kmv1"))
    {
        FA Rm (R, M);
        FA::WritableMaskedAccess ra (Rm); FA::ReadOnlyDirectAccess ba (B);
        detail::VectorizedMaskedVoidOperation1<VOp, FA::WritableMaskedAccess, FA::ReadOnlyDirectAccess, FA &> t (ra, ba, Rm);
        t.execute (start, end);
        for (size_t k = start; k < end; k++) VOp::apply (expect[idx[k]], b0[idx[k]]);
    }
    for (int k = 0; k < NBUF; k++)
    {
        if (R[k] != expect[k]) { printf ("REPRODUCED on real code: %s: result[%d] is %d, the scalar loop gives %d (start %zu end %zu)\n", which, k, R[k], expect[k], start, end); fail = 1; }
        if (A[k] != a0[k] || B[k] != b0[k]) { printf ("REPRODUCED on real code: %s: an argument was written at %d\n", which, k); fail = 1; }
    }
    if (!fail) printf ("not reproduced\n");
    return fail;
}
