/* C09 (algebraic clauses, RING, T = unsigned int): transform builders act as documented on row-vector points,
 * and the in-place forms equal the corresponding set* matrix multiplied on the LEFT of the current matrix,
 * for ARBITRARY current matrices (non-affine included). */
#include "vf.h"
#include "c09_names.h"
#ifdef VF_NATIVE
#include "c09x.fwd.c"
#else
#include "c09x.c"
#endif
typedef unsigned int U;
typedef struct Matrix44_uint M44;
typedef struct Matrix33_uint M33;
typedef struct Vec3_uint V3;
typedef struct Vec2_uint V2;
typedef struct Shear6_uint S6;
#define IN_M44(m, in) VF_IN_ARR (U, in, 16); M44 m; for (int vi = 0; vi < 16; vi++) m.x[vi / 4][vi % 4] = in[vi]
#define IN_M33(m, in) VF_IN_ARR (U, in, 9); M33 m; for (int vi = 0; vi < 9; vi++) m.x[vi / 3][vi % 3] = in[vi]
#define IN_V3(v, in) VF_IN_ARR (U, in, 3); V3 v; v.x = in[0]; v.y = in[1]; v.z = in[2]
#define IN_V2(v, in) VF_IN_ARR (U, in, 2); V2 v; v.x = in[0]; v.y = in[1]
static inline _Bool eq44 (M44 a, M44 b) { for (int i = 0; i < 4; i++) for (int j = 0; j < 4; j++) if (a.x[i][j] != b.x[i][j]) return 0; return 1; }
static inline _Bool eq33 (M33 a, M33 b) { for (int i = 0; i < 3; i++) for (int j = 0; j < 3; j++) if (a.x[i][j] != b.x[i][j]) return 0; return 1; }
/* a row-vector point (p,1) through an affine-looking 4x4 / 3x3 (no divide: the builders produce last column (0,..,0,1)) */
#define ROW4(p, m, j) ((p).x * (m).x[0][j] + (p).y * (m).x[1][j] + (p).z * (m).x[2][j] + (m).x[3][j])
#define ROW3(p, m, j) ((p).x * (m).x[0][j] + (p).y * (m).x[1][j] + (m).x[2][j])

/* ---- builders: what the matrix does to a point ---- */
void h_setTranslation44 (void)
{
    IN_M44 (m, in_m); IN_V3 (t, in_t); IN_V3 (p, in_p);
    F_setTranslation44 (&m, &t);
    VF_ASSERT (ROW4 (p, m, 0) == p.x + t.x && ROW4 (p, m, 1) == p.y + t.y && ROW4 (p, m, 2) == p.z + t.z && ROW4 (p, m, 3) == 1, "setTranslation sends p to p + t");
    V3 r = F_translation44 (&m);
    VF_ASSERT (r.x == t.x && r.y == t.y && r.z == t.z, "translation() returns the translation row");
    VF_END ();
}
void h_setScale44 (void)
{
    IN_M44 (m, in_m); IN_V3 (s, in_s); IN_V3 (p, in_p);
    F_setScale44v (&m, &s);
    VF_ASSERT (ROW4 (p, m, 0) == p.x * s.x && ROW4 (p, m, 1) == p.y * s.y && ROW4 (p, m, 2) == p.z * s.z && ROW4 (p, m, 3) == 1, "setScale(vec) scales per axis");
    VF_IN (U, in_k); M44 n = m; F_setScale44s (&n, in_k);
    VF_ASSERT (ROW4 (p, n, 0) == p.x * in_k && ROW4 (p, n, 1) == p.y * in_k && ROW4 (p, n, 2) == p.z * in_k && ROW4 (p, n, 3) == 1, "setScale(scalar) scales uniformly");
    VF_END ();
}
/* documented shear: x' = x + xy*y ... as the matrix rows say: P' = P * [[1,0,0],[xy,1,0],[xz,yz,1]] for the Vec3 form */
void h_setShear44 (void)
{
    IN_M44 (m, in_m); IN_V3 (h, in_h); IN_V3 (p, in_p);
    F_setShear44v (&m, &h);
    VF_ASSERT (ROW4 (p, m, 0) == p.x + h.x * p.y + h.y * p.z && ROW4 (p, m, 1) == p.y + h.z * p.z && ROW4 (p, m, 2) == p.z && ROW4 (p, m, 3) == 1,
               "setShear(Vec3 (xy,xz,yz)): x += xy*y + xz*z, y += yz*z");
    VF_END ();
}
/* ---- in-place forms pre-multiply: M.f(a) == set_f(a) * M for ARBITRARY M ---- */
#define H_PRE44(name, T, INARG, argname, FIN, FSET)                                                            \
    void h_##name (void) { IN_M44 (m, in_m); INARG (argname, in_a); M44 m0 = m; M44 s; memset (&s, 0, sizeof s); \
        FSET (&s, &argname); FIN (&m, &argname); M44 e = F_mul44 (&s, &m0);                                      \
        VF_ASSERT (eq44 (m, e), #name ": the in-place form equals the set* matrix times the current matrix (left multiplication)"); VF_END (); }
H_PRE44 (translate44, V3, IN_V3, t, F_translate44, F_setTranslation44)
H_PRE44 (scale44, V3, IN_V3, t, F_scale44, F_setScale44v)
H_PRE44 (shear44v, V3, IN_V3, t, F_shear44v, F_setShear44v)
void h_shear44s6 (void)
{
    IN_M44 (m, in_m); VF_IN_ARR (U, in_h, 6);
    S6 h; h.xy = in_h[0]; h.xz = in_h[1]; h.yz = in_h[2]; h.yx = in_h[3]; h.zx = in_h[4]; h.zy = in_h[5];
    M44 m0 = m; M44 s; memset (&s, 0, sizeof s);
    F_setShear44s6 (&s, &h); F_shear44s6 (&m, &h);
    M44 e = F_mul44 (&s, &m0);
    VF_ASSERT (eq44 (m, e), "shear(Shear6) equals setShear(Shear6) times the current matrix");
    VF_END ();
}
#define H_PRE33(name, INARG, FIN, FSET)                                                                        \
    void h_##name (void) { IN_M33 (m, in_m); INARG (t, in_a); M33 m0 = m; M33 s; memset (&s, 0, sizeof s);        \
        FSET (&s, &t); FIN (&m, &t); M33 e = F_mul33 (&s, &m0);                                                  \
        VF_ASSERT (eq33 (m, e), #name ": the in-place form equals the set* matrix times the current matrix (left multiplication)"); VF_END (); }
H_PRE33 (translate33, IN_V2, F_translate33, F_setTranslation33)
H_PRE33 (scale33, IN_V2, F_scale33, F_setScale33v)
H_PRE33 (shear33v, IN_V2, F_shear33v, F_setShear33v)
void h_shear33s (void)
{
    IN_M33 (m, in_m); VF_IN (U, in_h);
    M33 m0 = m; M33 s; memset (&s, 0, sizeof s);
    F_setShear33s (&s, &in_h); F_shear33s (&m, &in_h);
    M33 e = F_mul33 (&s, &m0);
    VF_ASSERT (eq33 (m, e), "shear(xy) equals setShear(xy) times the current matrix");
    VF_END ();
}
void h_builders33 (void)
{
    IN_M33 (m, in_m); IN_V2 (t, in_t); IN_V2 (p, in_p);
    F_setTranslation33 (&m, &t);
    VF_ASSERT (ROW3 (p, m, 0) == p.x + t.x && ROW3 (p, m, 1) == p.y + t.y && ROW3 (p, m, 2) == 1, "3x3 setTranslation sends p to p + t");
    V2 r = F_translation33 (&m);
    VF_ASSERT (r.x == t.x && r.y == t.y, "3x3 translation() returns the translation row");
    F_setScale33v (&m, &t);
    VF_ASSERT (ROW3 (p, m, 0) == p.x * t.x && ROW3 (p, m, 1) == p.y * t.y && ROW3 (p, m, 2) == 1, "3x3 setScale(vec)");
    VF_END ();
}

/* ---- rotations: cos / sin are uninterpreted; the clauses are polynomial identities in their values ---- */
typedef struct Matrix22_uint M22;
#define RC(a) ((U) cxx2c_ring_cos (a))
#define RS(a) ((U) cxx2c_ring_sin (a))
static inline M44 id44 (void) { M44 r; memset (&r, 0, sizeof r); r.x[0][0] = r.x[1][1] = r.x[2][2] = r.x[3][3] = 1; return r; }
/* elementary rotations acting on row vectors: about x: y -> (c, s), z -> (-s, c); about y: z -> (s.., c), x -> (c, -s); about z: x -> (c, s), y -> (-s, c) */
static inline M44 rotx (U a) { M44 r = id44 (); r.x[1][1] = RC (a); r.x[1][2] = RS (a); r.x[2][1] = -RS (a); r.x[2][2] = RC (a); return r; }
static inline M44 roty (U a) { M44 r = id44 (); r.x[0][0] = RC (a); r.x[0][2] = -RS (a); r.x[2][0] = RS (a); r.x[2][2] = RC (a); return r; }
static inline M44 rotz (U a) { M44 r = id44 (); r.x[0][0] = RC (a); r.x[0][1] = RS (a); r.x[1][0] = -RS (a); r.x[1][1] = RC (a); return r; }
void h_setEuler44 (void)
{
    IN_M44 (m, in_m); IN_V3 (r, in_r);
    F_setEuler44 (&m, &r);
    M44 rx = rotx (r.x), ry = roty (r.y), rz = rotz (r.z);
    M44 xy = F_mul44 (&rx, &ry);
    M44 e = F_mul44 (&xy, &rz);
    VF_ASSERT (eq44 (m, e), "setEulerAngles(r) is the product Rx(r.x) Ry(r.y) Rz(r.z) of the elementary row-vector rotations");
    VF_END ();
}
void h_rotate44 (void)
{
    IN_M44 (m, in_m); IN_V3 (r, in_r);
    M44 m0 = m; M44 s; memset (&s, 0, sizeof s);
    F_setEuler44 (&s, &r); F_rotate44 (&m, &r);
    M44 e = F_mul44 (&s, &m0);
    VF_ASSERT (eq44 (m, e), "rotate(r) equals setEulerAngles(r) times the current matrix (left multiplication)");
    VF_END ();
}
void h_setRotation33 (void)
{
    IN_M33 (m, in_m); VF_IN (U, in_r); VF_IN_ARR (U, in_n, 4);
    F_setRotation33 (&m, in_r);
    VF_ASSERT (m.x[0][0] == RC (in_r) && m.x[0][1] == RS (in_r) && m.x[1][0] == -RS (in_r) && m.x[1][1] == RC (in_r) && m.x[0][2] == 0 && m.x[1][2] == 0
               && m.x[2][0] == 0 && m.x[2][1] == 0 && m.x[2][2] == 1, "3x3 setRotation(r) = [[c,s,0],[-s,c,0],[0,0,1]]");
    M22 n; n.x[0][0] = in_n[0]; n.x[0][1] = in_n[1]; n.x[1][0] = in_n[2]; n.x[1][1] = in_n[3];
    F_setRotation22 (&n, in_r);
    VF_ASSERT (n.x[0][0] == RC (in_r) && n.x[0][1] == RS (in_r) && n.x[1][0] == -RS (in_r) && n.x[1][1] == RC (in_r), "2x2 setRotation(r) = [[c,s],[-s,c]]");
    VF_END ();
}
void h_rotate33 (void)
{
    IN_M33 (m, in_m); VF_IN (U, in_r);
    M33 m0 = m; M33 s; memset (&s, 0, sizeof s);
    F_setRotation33 (&s, in_r); F_rotate33 (&m, in_r);
    M33 e = F_mul33 (&m0, &s);
    VF_ASSERT (eq33 (m, e), "3x3 rotate(r) equals the current matrix times setRotation(r) (right multiplication)");
    VF_END ();
}
void h_rotate22 (void)
{
    VF_IN_ARR (U, in_n, 4); VF_IN (U, in_r);
    M22 n; n.x[0][0] = in_n[0]; n.x[0][1] = in_n[1]; n.x[1][0] = in_n[2]; n.x[1][1] = in_n[3];
    M22 n0 = n; M22 s; memset (&s, 0, sizeof s);
    F_setRotation22 (&s, in_r); F_rotate22 (&n, in_r);
    M22 e = F_mul22 (&n0, &s);
    VF_ASSERT (n.x[0][0] == e.x[0][0] && n.x[0][1] == e.x[0][1] && n.x[1][0] == e.x[1][0] && n.x[1][1] == e.x[1][1], "2x2 rotate(r) equals the current matrix times setRotation(r)");
    VF_END ();
}

void h_scale22 (void)
{
    VF_IN_ARR (U, in_n, 4); IN_V2 (sv, in_s); VF_IN (U, in_k);
    M22 n; n.x[0][0] = in_n[0]; n.x[0][1] = in_n[1]; n.x[1][0] = in_n[2]; n.x[1][1] = in_n[3];
    M22 a = n; F_setScale22s (&a, in_k);
    VF_ASSERT (a.x[0][0] == in_k && a.x[0][1] == 0 && a.x[1][0] == 0 && a.x[1][1] == in_k, "2x2 setScale(s) == diag(s, s)");
    M22 b = n; F_setScale22v (&b, &sv);
    VF_ASSERT (b.x[0][0] == sv.x && b.x[0][1] == 0 && b.x[1][0] == 0 && b.x[1][1] == sv.y, "2x2 setScale(Vec2) == diag(s.x, s.y)");
    M22 c = n; F_scale22 (&c, &sv);
    M22 e = F_mul22 (&b, &n);
    VF_ASSERT (c.x[0][0] == e.x[0][0] && c.x[0][1] == e.x[0][1] && c.x[1][0] == e.x[1][0] && c.x[1][1] == e.x[1][1], "2x2 scale(s) equals setScale(s) times the current matrix (left multiplication)");
    VF_END ();
}
