/* Contracts for the two C conversion functions of /repo/src/Imath/half.h.
 * The real header is included first; the re-declarations below attach the
 * contracts to the real bodies (nothing in /repo is edited). */
#ifndef CONTRACTS_HALF_C_H
#define CONTRACTS_HALF_C_H
#include "vf.h"
#include "spec_half.h"
#include "half.h"

/* ---- postconditions as macros so the native replay evaluates the same text ---- */
#define F2H_POST_SPEC(r, f)      ((r) == spec_f2h (vf_f2u (f)))
#define F2H_ABS(f)               (vf_f2u (f) & 0x7fffffffu)
#define F2H_IS_NAN(f)            (F2H_ABS (f) > 0x7f800000u)
/* |f| >= 65520 (0x477ff000) and not NaN -> infinity of the same sign */
#define F2H_POST_OVERFLOW(r, f)  (!(F2H_ABS (f) >= 0x477ff000u && !F2H_IS_NAN (f)) || (r) == (((vf_f2u (f) >> 16) & 0x8000u) | 0x7c00u))
/* |f| <= 2^-25 (0x33000000) -> zero of the same sign */
#define F2H_POST_UNDERFLOW(r, f) (!(F2H_ABS (f) <= 0x33000000u) || (r) == ((vf_f2u (f) >> 16) & 0x8000u))
/* NaN -> NaN, same sign, top ten payload bits kept, payload 1 if those are zero */
#define F2H_POST_NAN(r, f)       (!F2H_IS_NAN (f) || (r) == (((vf_f2u (f) >> 16) & 0x8000u) | 0x7c00u | ((((vf_f2u (f) >> 13) & 0x3ffu) != 0) ? ((vf_f2u (f) >> 13) & 0x3ffu) : 1u)))
/* finite, below overflow: result is finite, and just below 65520 gives 65504 */
#define F2H_POST_FINITE(r, f)    (!(F2H_ABS (f) < 0x477ff000u) || ((r) & 0x7fffu) < 0x7c00u)
/* sign always preserved */
#define F2H_POST_SIGN(r, f)      ((((r) >> 15) & 1u) == (vf_f2u (f) >> 31))

#define H2F_POST_SPEC(r, h)      (vf_f2u (r) == spec_h2f (h))

#ifndef VF_NATIVE
static inline imath_half_bits_t imath_float_to_half (float f)
    __CPROVER_ensures (F2H_POST_SPEC (__CPROVER_return_value, f))
    __CPROVER_ensures (F2H_POST_OVERFLOW (__CPROVER_return_value, f))
    __CPROVER_ensures (F2H_POST_UNDERFLOW (__CPROVER_return_value, f))
    __CPROVER_ensures (F2H_POST_NAN (__CPROVER_return_value, f))
    __CPROVER_ensures (F2H_POST_FINITE (__CPROVER_return_value, f))
    __CPROVER_ensures (F2H_POST_SIGN (__CPROVER_return_value, f))
    __CPROVER_assigns ();

#ifdef VF_WITH_TABLE
/* table build: the global pointer designates 65536 entries and entry h holds the
 * binary16 value of h.  The second requires is the instantiation at h of the table
 * lemma "table[y].i == spec_h2f(y) for every y", which the c01.table.* units
 * discharge entry by entry on the shipped toFloat.h. */
static inline float imath_half_to_float (imath_half_bits_t h)
    __CPROVER_requires (__CPROVER_r_ok (imath_half_to_float_table, 65536 * sizeof (imath_half_uif_t)))
    __CPROVER_requires (imath_half_to_float_table[h].i == spec_h2f (h))
    __CPROVER_ensures (H2F_POST_SPEC (__CPROVER_return_value, h))
    __CPROVER_assigns ();
#else
static inline float imath_half_to_float (imath_half_bits_t h)
    __CPROVER_ensures (H2F_POST_SPEC (__CPROVER_return_value, h))
    __CPROVER_assigns ();
#endif
#endif
#endif
