/* Pure specification functions for binary16 <-> binary32, written from the
 * statement of property C01 (IEEE-754 value semantics), not from half.h. */
#ifndef SPEC_HALF_H
#define SPEC_HALF_H
#include <stdint.h>

/* binary32 bit pattern of the value denoted by binary16 pattern h.
 * NaN: sign and the ten payload bits preserved (placed at the top of the
 * binary32 significand). */
static inline uint32_t spec_h2f (uint16_t h)
{
    uint32_t sign = ((uint32_t) (h & 0x8000u)) << 16;
    uint32_t e    = (h >> 10) & 0x1fu;
    uint32_t m    = h & 0x3ffu;
    if (e == 31) return sign | 0x7f800000u | (m << 13);
    if (e == 0)
    {
        if (m == 0) return sign;
        /* subnormal: value = m * 2^-24; normalise to 1.xxx * 2^(-14-k) */
        uint32_t k = 0;
        while (!(m & 0x400u))
        {
            m <<= 1;
            k++;
        }
        return sign | ((113u - k) << 23) | ((m & 0x3ffu) << 13);
    }
    /* normal: 1.m * 2^(e-15) */
    return sign | ((e + 112u) << 23) | (m << 13);
}

/* binary16 pattern nearest to the binary32 value with pattern b, ties to even
 * significand; overflow to infinity, underflow to signed zero; NaN keeps sign and
 * top ten payload bits, payload 1 if those are zero. */
static inline uint16_t spec_f2h (uint32_t b)
{
    uint16_t sign = (uint16_t) ((b >> 16) & 0x8000u);
    uint32_t e    = (b >> 23) & 0xffu;
    uint32_t m    = b & 0x7fffffu;
    if (e == 0xff)
    {
        if (m == 0) return sign | 0x7c00u;
        uint32_t p = m >> 13;
        if (p == 0) p = 1;
        return sign | 0x7c00u | (uint16_t) p;
    }
    if (e == 0) return sign; /* |f| < 2^-126: far below half a quantum (2^-25) */
    /* |f| = sig * 2^(e-150), sig in [2^23, 2^24).  The binary16 quantum at this
     * magnitude is 2^(max(e-127,-14)-10); |f| is sig / 2^s quanta with        */
    uint32_t sig = 0x800000u | m;
    uint32_t s   = 13u + (e < 113u ? 113u - e : 0u);
    if (s > 26) return sign; /* fewer than 1/4 quantum */
    uint32_t q    = sig >> s;
    uint32_t rem  = sig & ((1u << s) - 1u);
    uint32_t half = 1u << (s - 1);
    if (rem > half || (rem == half && (q & 1u))) q++;
    uint32_t bits;
    if (e < 113u)
        bits = q; /* subnormal (q == 0x400 is exactly the smallest normal) */
    else
        bits = ((e - 112u) << 10) + (q - 0x400u); /* carry into exponent if q == 0x800 */
    if (bits >= 0x7c00u) return sign | 0x7c00u;
    return sign | (uint16_t) bits;
}

/* classes of a binary16 pattern */
#define SPEC_HC_ZERO 0
#define SPEC_HC_DENORM 1
#define SPEC_HC_NORMAL 2
#define SPEC_HC_INF 3
#define SPEC_HC_NAN 4
static inline int spec_half_class (uint16_t h)
{
    uint32_t e = (h >> 10) & 0x1fu, m = h & 0x3ffu;
    if (e == 31) return m ? SPEC_HC_NAN : SPEC_HC_INF;
    if (e == 0) return m ? SPEC_HC_DENORM : SPEC_HC_ZERO;
    return SPEC_HC_NORMAL;
}

#endif
