/* shared spec macros for component-wise contracts */
#ifndef C04_SPEC_H
#define C04_SPEC_H
/* IEEE equality that SMT float theories can decide: same value and sign, or both NaN */
#define FEQ(a, b) ((((a) == (b)) && (__builtin_signbit (a) == __builtin_signbit (b))) || (((a) != (a)) && ((b) != (b))))
#define IEQ(a, b) ((a) == (b))
/* documented meaning of equalWithAbsError / equalWithRelError on scalars (ImathMath.h):
 *   abs (x1 - x2) <= e        abs (x1 - x2) <= e * abs (x1)                          */
#define SPEC_ABS(T, x) (((x) < (T) 0) ? (T) (-(x)) : (x))
#define SPEC_EQABS(T, x1, x2, e) (SPEC_ABS (T, (T) ((x1) - (x2))) <= (e))
#define SPEC_EQREL(T, x1, x2, e) (SPEC_ABS (T, (T) ((x1) - (x2))) <= (T) ((e) * SPEC_ABS (T, x1)))
#endif
