#!/bin/sh
# usage: seedrun.sh <PROP> <patch> [tier]  - apply a seeded change to /repo, run the check, undo
P=$1; D=$2; T=${3:-quick}
git -C /repo apply "$D" || { echo "apply failed"; exit 3; }
cd /verif && ./check $P --tier $T > /tmp/seedrun_$P.log 2>&1; rc=$?
git -C /repo checkout -- .
echo "rc=$rc"; grep "VIOLATION\|UNDECIDED\|KNOWN\|^OK" /tmp/seedrun_$P.log | cut -c1-200 | head -8
