#!/bin/sh
# re-run every claimed quick check on the clean /repo tree so that the committed evidence is from the unchanged tree
cd /verif
git -C /repo status --short | grep -q . && { echo "/repo is dirty"; exit 1; }
for p in $(python3 -c "import json;print(' '.join(c['property_id'] for c in json.load(open('MANIFEST.json'))['checks']))"); do
  ./check $p --tier quick > /tmp/regen_$p.log 2>&1; echo "$p rc=$? $(tail -1 /tmp/regen_$p.log | cut -c1-120)"
done
