/* inert stand-in: half.h includes <x86intrin.h> only for the F16C path, which CBMC cannot model (DESIGN §3.1) */
