#!/bin/sh
# Offline setup: nothing to build ahead of time - every check rebuilds from /repo's
# working tree. Verify the tools are present.
for t in cbmc goto-cc goto-instrument cvc5 z3-new z3 kissat clang++ g++ gcc python3; do
  command -v $t >/dev/null 2>&1 || { echo "missing tool: $t"; exit 1; }
done
mkdir -p /verif/build /verif/replay /verif/evidence
echo setup ok
