#!/usr/bin/env python3
"""Writes /verif/MANIFEST.json from the table below (kept valid at all times)."""
import json, os, sys
VERIF = os.path.dirname(os.path.dirname(os.path.abspath(__file__)))

CLAIMED = {
    "C01": dict(
        text="Proof: imath_float_to_half and imath_half_to_float (the real half.h, included directly) are checked by goto-instrument --dfcc --enforce-contract + cbmc against integer specifications of binary16 round-to-nearest-even / binary16 value for all 2^32 and 2^16 inputs; the shipped table is checked entry by entry (65536 ground obligations); the round trip is a lemma over the two contracts only.",
        note="Trusted: cbmc/goto-instrument 6.11, minisat; spec functions in /verif/spec/spec_half.h (themselves cross-checked against CBMC's IEEE arithmetic); x86intrin.h stubbed out; F16C path not modelled.",
        technique="CBMC function contracts (dfcc) on directly included C code, SAT back end, full input domain",
        ref="6/C01"),
}

CLAIMED["C04"] = dict(
    text="Proof: every arithmetic/comparison operator of Vec2/3/4, Color3/4, Shear6, Quat(+,-,scalar) and Matrix22/33/44 (quick: 10 type/element combinations, thorough: the whole table) is extracted from the instantiated template by cxx2c on every run and checked against a generated contract: for every slot of the documented layout, result.slot == scalar op on the corresponding slots (IEEE equality incl. signed zero, NaN-aware), exact frame, compound forms return *this, aliased operands included; equality predicates are the conjunction over all slots. Stream output: operator<< of every class is extracted against a ghost model of std::ostream (a log of insertions) and checked for the token structure the property states - '(' , the components in declaration order separated by white space (single spaces; matrices one row per line), ')' - which found the missing separator in Shear6's operator<<, fixed in /repo (ebe8e1f).",
    note="Trusted: clang 14 AST + cxx2c emission rules (differentially validated against the g++ build on every fresh extraction), cbmc 6.11 + cvc5 1.0 FP theory. Integer + - * proved under two's-complement wrap-around. The characters libstdc++ prints for one element are outside the verifier (only the token structure is decided); operator[]/getValue/setValue/interop constructors and the half element type are not covered in this revision.",
    technique="CBMC function contracts (dfcc) on mechanically extracted C of the instantiated C++ templates, cvc5 back end",
    ref="6/C04")

CLAIMED["C18"] = dict(
    text="Proof: rand48Next, nrand48, erand48, lrand48, drand48, srand48 and the Rand32/Rand48 members are extracted from ImathRandom.cpp/.h on every run and checked against contracts written from the POSIX drand48(3) text: successor state X' = (0x5DEECE66D X + 0xB) mod 2^48 for all 2^48 states (frame = the three state words), nrand48 = X'>>17, erand48 in [0,1) and within 2^-48 of X'/2^48, srand48 seeding; Rand32 LCG step, nextb/nexti/nextf ranges and values; Rand48 members forward to the C functions (callee contracts only); determinism lemma from the contracts.",
    note="Trusted: clang AST + cxx2c (differentially validated), cbmc 6.11, cvc5, minisat. erand48/Rand32::nextf contracts are discharged as two views (value on SAT, state on cvc5 with slicing) plus a composition lemma. Sphere/Gauss samplers and nextf(a,b) interval are not covered; libc is not executed - the POSIX text is the spec.",
    technique="CBMC function contracts (dfcc, enforce + replace-call-with-contract) on extracted C, cvc5/SAT back ends, full state space",
    ref="6/C18")

CLAIMED["C05"] = dict(
    text="Proof (RING mode): dot, 2-D/3-D cross (cross, %, %=), quaternion product (*, *=), Matrix22/33/44 x (operator*, *=, static multiply 2- and 3-argument incl. aliased out-parameter), Vec x Matrix (operator*, *=, multVecMatrix, multDirMatrix; homogeneous and plain), outerProduct 3x3/4x4, transpose/transposed, trace, minorOf/fastMinor and determinant are extracted at T = unsigned int and checked against textbook sums written as index loops; lemmas det(AB)=det(A)det(B) (2,3), det(A^T)=det(A), cofactor expansion by minorOf along rows/columns = determinant(). Obligations are polynomial identities over Z/2^32 discharged by z3's sum-of-monomials normaliser on cbmc's SMT output; all other obligations (frame, pointers) by cbmc.",
    note="Trusted: clang AST + cxx2c (differentially validated), cbmc 6.11 SMT generation, z3-new 5.1 som rewriter. Transfer from the unsigned instantiation to float/double: mechanical same-shape check of the emitted bodies + the classical forward-error bound, which is NOT machine-checked. The Matrix44::determinant zero-skip guards (x != 0.) are rewritten to integer tests after the equivalence is discharged by z3 on cbmc's own definitions.",
    technique="CBMC function contracts (dfcc) on extracted C at T=unsigned, polynomial identities via cbmc --z3 --outfile + z3 sum-of-monomials tactic",
    ref="6/C05")

CLAIMED["C03"] = dict(
    text="Proof: the members of class half are extracted from half.h/halfLimits.h and put under contract: the C conversion functions as compiled in C++ (same RNE / value specs as C01, all inputs), half(float) and operator float() through those contracts, the member round trip as a lemma, += -= *= /= with half and float right-hand sides == f2h(h2f(a) op b) for all operand pairs, unary minus flips bit 15, the seven classification predicates against the binary16 class for all 2^16 patterns plus the lemma 'exactly one class, consistent with isFinite/isNegative and with the float class of the value', round(n) for all non-NaN patterns and every n (sign, finiteness, cleared low bits, within half a unit, truncation exactly at the overflow edge), numeric_limits<half>/HALF_* extremes against the conversions; halfFunction<float>: the constructor's loop is closed by a loop contract (ghost index, assigns, decreases) so that EVERY one of the 65536 table entries is f(x) for finite x in [domainMin, domainMax] and the designated default / +inf / -inf / NaN value otherwise, and operator() reads the entry of its argument's bit pattern.",
    note="Trusted: clang AST + cxx2c (differentially validated), cbmc 6.11 SAT (array theory for the 65536-entry table), goto-instrument loop-contract instrumentation. For *= and /= the float operation is an uninterpreted function (same symbol in code and spec) because SAT cannot match two multiplier circuits; += and -= use IEEE semantics. halfFunction: f uninterpreted, configuration IMATH_HAVE_LARGE_STACK (table as a member array). Stream I/O is not covered.",
    technique="CBMC function contracts (dfcc, enforce + replace) on extracted C, SAT back end, full 2^16 / 2^32 domains",
    ref="6/C03")
CLAIMED["C07"] = dict(
    text="Proof: for Vec2/3/4 normalizeExc/normalize/normalizeNonNull and normalizedExc/normalized/normalizedNonNull, and Matrix22/33/44 inverse/invert/gjInverse/gjInvert with and without the singExc flag, dfcc-enforced contracts give the frame, 'throws only with the flag / exactly for zero length', and the documented exception kind; relational lemma units call the checked and the real unchecked function on the same symbolic input and prove the results identical slot for slot whenever the checked form returns, and that it throws only where the plain form returns the identity (Vec all dims, Matrix22, Matrix33 inverse/invert; Matrix44 inverse/invert modularly: gjInverse()/gjInverse(bool) enter through an assumed interface, the affine branch and the guard are the real code); the same relational lemma plus the documented exception type for all ten Frustum ...Exc / setExc pairs and for Vec3(Vec4, InfException) vs Vec3(Vec4); the matrix-decomposition functions with an exc flag (checkForZeroScaleInRow 2-D/3-D, extractAndRemoveScalingAndShear and removeScalingAndShear for Matrix33 and Matrix44; thorough tier: extractScaling, extractScalingAndShear, removeScalingAndShear, sansScalingAndShear for Matrix44): exc = true throws std::domain_error exactly when exc = false reports failure, exc = false never throws, identical results whenever the checked form returns; thorough tier: for Vec3(Vec4, InfException) the guard fires only when the exact quotient is within a factor four of max, never for |w| >= 1 or quotient < max/2, and a returned value is finite (IEEE).",
    note="Mode ABS for these units: + - * / and sqrt are uninterpreted functions (identical operation sequences are identical results for ANY arithmetic, in particular IEEE); comparisons are real. Trusted: clang AST + cxx2c, cbmc, cvc5, minisat. Not covered: relational clause for the Gauss-Jordan copies themselves (solver memory; assumed in the modular 4x4 units), sansScaling / removeScaling / extractSHRT (exc threaded through extractSHRT: not built), guard placement for the Frustum / checkForZeroScaleInRow guards.",
    technique="CBMC contracts (dfcc) for frame/exception clauses + relational lemma harnesses over the two real functions with uninterpreted arithmetic, cvc5/SAT",
    ref="6/C07")

CLAIMED["C13"] = dict(
    text="Proof: for Box<Vec2<T>>, Box<Vec3<T>> (the hand-unrolled specialisations), Box<Vec4<T>> (the generic template) and Interval<T> one generated contract text is enforced on every real function: default construction / makeEmpty give the canonical empty box, makeInfinite the full box, intersects(point) is membership for every min/max pair incl. inverted ones, intersects(box) has the closed form on non-empty boxes, extendBy(point/box) is per-axis min/max with exact frame (aliased argument included), isEmpty/hasVolume/isInfinite/size/center/majorAxis (first axis of maximal size) are the stated functions of min and max. Lemma units over the contracts: empty contains no ghost point, infinite contains every finite ghost point, extendBy yields the SMALLEST valid box containing what was added (ghost point and ghost enclosing box), the invariant is preserved, intersects(box) is symmetric, implied by any shared point and implies a shared witness point. ImathBoxAlgo.h: clip / closestPointInBox / closestPointOnBox contracts and nearest-point lemmas (ghost competitor point); transform / affineTransform on Box3f x M44f with uninterpreted arithmetic: all four overloads map empty to empty and infinite to infinite for an arbitrary previous result, the out-parameter forms leave exactly what the value forms return (affine and projective matrices), transform on an affine matrix equals affineTransform (this found and fixed a defect in transform(box, m, result), commit 760512d).",
    note="Trusted: clang AST + cxx2c (differentially validated), cbmc 6.11, cvc5, z3. Points are finite non-NaN; set-level laws hold under the representation invariant (non-empty or canonical empty). Not covered: containment of the image of every point and tightness of Arvo's bound in IEEE arithmetic.",
    technique="CBMC function contracts (dfcc) on extracted C for all three template copies, lemma harnesses with ghost points/boxes, cvc5",
    ref="6/C13")

CLAIMED["C02"] = dict(
    text="Proof: the same two contracts (RNE spec / binary16 value spec) are enforced on imath_float_to_half under every configuration of the plain-C inclusion (generated default config, no-table, table forced), on imath_half_to_float in the bit-shift build and in the table build (with the 65536 table-entry obligations on the shipped toFloat.h), on both functions and on half(float)/operator float() as compiled through the C++ inclusion (extracted at -std=c++17; the emitted C is checked textually identical at c++14/17/20), and on the table generator's halfToFloat() cut from toFloat.cpp; equal contracts for all inputs give bit-identical results across back ends, and table == generator output.",
    note="Trusted: cbmc 6.11 SAT, clang AST + cxx2c for the C++ inclusion. F16C: no CBMC model of the intrinsics; the thorough tier runs an exhaustive native stand-in, labelled bounded and never counted. The generator's printing (iostream) is not covered. Static supporting facts: the table pointer is assigned only at its definition; emitted C identical across language modes.",
    technique="CBMC function contracts (dfcc) on directly included C under each configuration, and on extracted C for the C++ inclusion; SAT, full input domains",
    ref="6/C02")

CLAIMED["C17"] = dict(
    text="Proof for the clauses listed: floor/ceil/trunc (float and double argument, result representable) are the mathematical functions, abs/sign/cmp/cmpt/iszero/equal/clamp follow their definitions, lerp hits both endpoints and ulerp its first, lerpfactor returns 0 or n/d and never a non-finite value (thorough tier), finitef/finited equal !(inf||nan) for all bit patterns, succ/pred forward finite values to nextafter in the right direction and return inf/NaN unchanged, rgb2packed(packed2rgb(p)) preserves every channel for Color4<float>/Vec3<float> for all 2^32 p. divs/mods/divp/modp: bounded proof on |x|,|y|<1024 (labelled bounded, not counted) plus a full-width 60 s refutation search - which found the divp overflow now fixed in /repo (8307dd1).",
    note="Trusted: clang AST + cxx2c, cbmc, cvc5, minisat. nextafter is libm (uninterpreted). Integer division at full 32-bit width cannot be proved by the installed back ends (bounded stand-in). Not covered: roots, hsv conversions, equalWith* against |x1-x2|, lerpfactor inverse.",
    technique="CBMC function contracts (dfcc) on extracted C; cvc5 (IEEE) / SAT (bits); bounded stand-in for 32-bit division",
    ref="6/C17")

CLAIMED["C19"] = dict(
    text="Proof for the clauses within reach: FixedArray<int> is extracted from PyImathFixedArray.h (system boost / CPython headers, library models for shared_array/any/PyErr) and contracts are enforced on canonical_index (Python index semantics, IndexError exactly outside [-len,len)), operator[] / direct_index (raise exactly for read-only arrays; element address through the mask; in bounds under the view invariant), makeReadOnly, match_dimension (invalid_argument exactly on mismatched lengths) and the four ReadOnly/Writable Direct/Masked access constructors that guard vectorised reads and writes; lemma over the contracts: nothing through which data could be written is handed out for a read-only array. Bounded (arrays of at most 6 elements, labelled): getslice and setitem_scalar with a slice or integer index on plain and masked arrays select exactly the elements the same index selects on a Python list and raise exactly on a bad index / read-only array; CPython enters through an assumed interface (PySlice_Unpack arbitrary, PySlice_AdjustIndices = CPython's reference code). This check found the missing 'throw' in WritableMaskedAccess (dceb7c3) and the empty-backward-slice domain_error (997d46a), both fixed in /repo.",
    note="Trusted: clang AST of the PyImath header with system boost/python3.11 headers, cxx2c and its library models (shared_array = bare pointer: ownership and lifetimes dropped), cbmc, cvc5. No differential run (the functions need boost.python to link; the accessor obligations have a native replay that links it). Element-address bounds are checked on 8-element buffers. Not covered: setitem_vector / masked setitem / ifelse / mask constructors, FixedArray2D/FixedMatrix/FixedVArray, StringTable, buffer protocol, lifetimes, Python level.",
    technique="CBMC function contracts (dfcc) on extracted C of PyImath headers with assumed library models, cvc5",
    ref="6/C19")

CLAIMED["C20"] = dict(
    text="Proof for the frame/partition clause of the generic kernels: VectorizedOperation2<Op, WritableDirectAccess, ReadOnlyDirectAccess, ReadOnlyDirectAccess>::execute(start,end) is extracted with Op::apply an uninterpreted pure function and its loop is closed by a loop contract (invariant with ghost index, assigns, decreases) for arrays of any length up to 10^6: result[k] == apply(arg1[k],arg2[k]) exactly for start <= k < end, every other result position and both arguments untouched, the loop terminates. match_lengths raises exactly for mismatched vector lengths. Bounded (length <= 8, labelled, not counted): the masked-argument and masked-result kernels through the accessors' index maps, the in-place kernels VectorizedVoidOperation1 and VectorizedMaskedVoidOperation1 (a[mask] op= b with b of the unmasked length: b is indexed by the raw position), and the partition lemma on the real kernel (two sub-ranges in either order == one call over the union).",
    note="Trusted: clang AST of the PyImath headers, cxx2c + library models (as C19), cbmc loop-contract instrumentation, cvc5. The loop contract is inserted into the extracted C by the check (must-fire on the single for-loop). Concurrency is NOT modelled: disjoint write frames and read-only arguments are what is established; WorkerPool/dispatchTask, the export tables, the GIL macro and the hand-written Task structs are not covered.",
    technique="CBMC loop contracts + dfcc on extracted C of the PyImath kernel with an uninterpreted element operation; bounded unwinding stand-ins for masked kernels",
    ref="6/C20")

CLAIMED["C11"] = dict(
    text="Proof for the combinatorial and structural clauses: Euler<float> members are extracted (bit-fields kept) and put under contract: setOrder decodes the documented ABCD encoding, order() re-encodes it, the 24 orders are legal, angleOrder is the (anti)cyclic permutation starting at the initial axis, angleMapping a permutation; lemmas over the real functions for all 24 orders and all angles: order() returns the order set, angleMapping is the inverse of angleOrder, setXYZVector/toXYZVector are mutually inverse slot permutations; toMatrix33() and toMatrix44() (two textual copies of the Shoemake formulas) hold the same rotation block for all 24 orders with sin/cos and arithmetic uninterpreted. RING (Euler<int>, cos/sin uninterpreted ring-valued functions, only cos even / sin odd built in): for each of the 12 static orders toMatrix33() is the product of the three elementary row-vector rotations the order's name spells (ABC on (a0,a1,a2): R_A(a0) R_B(a1) R_C(a2)), each of the 12 rotating orders equals the static order with the same bits on the reversed angle triple, and Euler(x,y,z,XYZ).toMatrix44() == Matrix44::setEulerAngles((x,y,z)); the enum values are cut from the header on every run.",
    note="Trusted: clang AST + cxx2c (differentially validated incl. bit-fields), cbmc SAT, z3-new som. Not covered: orthonormality (needs c^2+s^2=1), toQuat, extract round trips / gimbal lock, extract 3x3 vs 4x4 (time-out), angleMod/makeNear, extractEuler*.",
    technique="CBMC function contracts (dfcc) + relational lemma harness with uninterpreted arithmetic on extracted C (SAT), polynomial identities with uninterpreted cos/sin on the int instantiation (z3 sum-of-monomials), all 24 orders",
    ref="6/C11")

CLAIMED["C06"] = dict(
    text="Proof for the clauses within reach: (RING, T = unsigned) on unit-determinant families M = L*U the REAL inverse() satisfies M*inverse(M) == inverse(M)*M == I for 2x2, the 3x3 cofactor path, the 3x3 affine fast path and the 4x4 affine branch - a wrong cofactor index or sign breaks the identity; (IEEE) determinant() == 0 implies inverse() returns the identity for every finite 2x2; in-place invert()/invert(bool) leave exactly what the value forms return (relational lemma units shared with C07: Matrix22, Matrix33, and Matrix44 modularly in gjInverse); Matrix44::inverse() / inverse(false) is gjInverse() whenever the last column is not (0,0,0,1) (guard placement, modular).",
    note="Trusted: clang AST + cxx2c, cbmc, z3-new som, cvc5. Not covered: every accuracy / conditioning clause (floating-point error analysis), Gauss-Jordan numerics and zero-pivot return (gjInverse enters the 4x4 units through an assumed interface), det==0 => identity beyond 2x2 (solver time-out), continuity across the affine switch.",
    technique="polynomial identities over Z/2^32 on the extracted unsigned instantiation (cbmc + z3 som) and relational / IEEE lemma harnesses (cvc5)",
    ref="6/C06, 10.3")
CLAIMED["C14"] = dict(
    text="Proof for three clauses: intersects(box, ray, ip) and findEntryAndExitPoints return false for every empty box; when the ray origin lies in a non-empty box intersects returns true with ip == origin (dfcc-enforced contracts with exact frames, arithmetic uninterpreted since only comparisons and copies matter); intersects(box, ray) is the boolean of the three-argument form for all finite inputs (IEEE, cvc5); findEntryAndExitPoints and intersects(box, ray, ip) return the same answer when box and line are cyclically relabelled x<-y<-z (arithmetic uninterpreted): the three hand-copied per-axis blocks agree with each other; whenever intersects(box, ray, ip) is true, ip lies in the closed box, for every finite box, origin and direction incl. zero, denormal and huge components (IEEE arithmetic, kissat); thorough tier: whenever findEntryAndExitPoints is true, entry and exit lie in the closed box, for unit directions and coordinates of magnitude <= 1e37 (for a zero / very short direction or a box reaching +-FLT_MAX the function returns true without setting them).",
    note="Trusted: clang AST + cxx2c (differentially validated), cbmc, cvc5, minisat. The geometric core of the property (exact truth value, points on the ray, first point of contact) is NOT decided.",
    technique="CBMC function contracts (dfcc) on extracted C + relational lemma harnesses (wrapper, axis relabelling), SAT / kissat / cvc5",
    ref="6/C14, 10.3")

CLAIMED["C09"] = dict(
    text="Proof for the algebraic clauses (RING, T = unsigned): Matrix44/Matrix33 setTranslation, setScale (vector and scalar), setShear send a row-vector point to p+t, to p scaled per axis, to the documented shear, translation() returns the translation row; the in-place translate, scale, shear (Vec3/Vec2, Shear6 and scalar overloads) equal the corresponding set* matrix multiplied on the LEFT of the current matrix for ARBITRARY (also non-affine) current matrices - the fourth row/column terms the tests never exercise. Rotations with cos and sin uninterpreted (the clauses are polynomial identities in the cos/sin values): Matrix44::setEulerAngles(r) == Rx(r.x) Ry(r.y) Rz(r.z), the product of the elementary row-vector rotations; Matrix44::rotate(r) == setEulerAngles(r) x M; Matrix33/Matrix22::setRotation == [[c,s],[-s,c]]; Matrix33/22::rotate(r) == M x setRotation(r). Matrix22 setScale (scalar, Vec2) == diag(s), scale(s) == setScale(s) x M.",
    note="Trusted: clang AST + cxx2c (differentially validated), cbmc SMT generation, z3-new som. RING -> float transfer as for C05 (same template; classical rounding bound not machine-checked). Not covered: orthonormality / determinant +1 (needs c^2+s^2=1), setAxisAngle (normalisation), the frame builders.",
    technique="polynomial identities over Z/2^32 on the extracted unsigned instantiation (cbmc --z3 --outfile + z3 sum-of-monomials)",
    ref="6/C09, 10.3")
CLAIMED["C10"] = dict(
    text="Proof for the algebraic clauses, homogenised so that each identity holds for EVERY quaternion and specialises to the property at unit norm N = q.q = 1 (RING, T = unsigned): v*q == v*q.toMatrix33(); q.rotateVector(v) == v*q + (N-1)v; toMatrix33 and toMatrix44 hold the same block with an affine border; with K(q) = M(q) + (N-1)I, K(q1*q2) == K(q2)*K(q1) (quaternion multiplication is multiplication of the rotation matrices, row-vector convention); the same for the in-place spelling q1 *= q2 (distinct and aliased operand); ~q negates the vector part only and q * ~q == (N,0,0,0). Interpolation family (Quat<float>, arithmetic and libm uninterpreted): slerpShortestArc == slerp towards the representative of q2 with non-negative dot product (never the long way round); squad == slerp(slerp(q1,q2,t), slerp(qa,qb,t), 2t(1-t)); intermediate == normalized(q1 * exp(-1/4 (log(q1^-1 q0) + log(q1^-1 q2)))) with that operand order; spline == squad(q1, intermediate(q0,q1,q2), intermediate(q1,q2,q3), q2, t) (checked modularly against pure-function interfaces of its callees). RETYPE (float text over Z/2^32, a/b = a*inv(b)): inverse(q) == conjugate(q)/(q^q) and q * inverse(q) == inverse(q) * q == (N inv(N), 0, 0, 0), the identity for q != 0.",
    note="Trusted: clang AST + cxx2c, cbmc, z3-new som. Not covered: exp/log, axis/angle, extractQuat, setRotation(from,to), slerp values, Quat vs Matrix44 setAxisAngle (transcendental functions, normalisation).",
    technique="polynomial identities over Z/2^32 on the extracted unsigned instantiation (cbmc --z3 --outfile + z3 sum-of-monomials)",
    ref="6/C10, 10.3")

CLAIMED["C15"] = dict(
    text="Proof for the clauses that are algebraic identities (the rest of C15 is listed as not covered): the extracted text of the FLOAT instantiation is evaluated over the commutative ring Z/2^32 with division as multiplication by an uninterpreted inverse and sqrt uninterpreted (RETYPE), so each result is an identity of the rational expressions the code computes on every path: Plane3(p0,p1,p2) and Plane3(point, normal) have zero signed distance to their defining points, the stored normal is parallel to the given one; reflectPoint negates the signed distance and reflectPoint / reflectVector are involutions (homogeneous in N = n.n, i.e. at unit normal); intersect / intersectT are false exactly for n.dir == 0, intersect's point is line(intersectT's t), lies on the line, and on the plane up to the explicit residual (n.pos - d)(1 - (n.dir) inv(n.dir)); -plane; Line3(p0,p1) starts at p0 with direction parallel to p1 - p0; closestPointTo(point) lies on the line with the connecting segment perpendicular to the direction (homogeneous in dir.dir); project / orthogonal / reflect satisfy their vector identities.",
    note="Partial. Trusted: clang AST + cxx2c (float instantiation differentially validated natively), cbmc SMT generation, z3 4.8.12 / z3 5.1 sum-of-monomials. Exact-arithmetic identities only: rounding ('to within rounding'), unit length of constructed normals (sqrt(x)^2 = x), the line-line functions, Sphere3, triangle intersection, plane x matrix, rotatePoint are NOT covered. Line3::distanceTo(point) == length of closestPointTo(point) - point, and closestVertex(v0,v1,v2,line) == a vertex of minimal squared distance to the line (ties unconstrained), are decided on the same extracted text. Seen while reading, outside these obligations and not repaired: Line3::distanceTo(Line3) omits the division by |d1 x d2| (findings/C15_line_distanceTo_line_demo.cpp).",
    technique="polynomial identities over Z/2^32 on the extracted float instantiation with the element type reinterpreted (RETYPE: inverse and sqrt uninterpreted), cbmc --z3 --outfile + z3 sum-of-monomials",
    ref="6/C15, 10.1, 10.3")

NA = {
    "C08": "the property is accuracy (ulps of length() and of normalised vectors): not expressible to the installed back ends (sqrt is uninterpreted; CBMC's own sqrt model times out). The structural remnants - zero vector stays zero / normalizeExc throws exactly for zero length / normalize == normalized - are decided under C07; length2()==dot(*this) is the function's literal body.",
    "C12": "factor recomposition, orthonormal residuals, Jacobi SVD / eigen convergence and Procrustes optimality are statements about iterative floating-point algorithms with sqrt/normalisation at every step; no contract expressible to CBMC states them without real-number error analysis (the clause 'degenerate input is reported: false or std::domain_error' is decided under C07 for checkForZeroScaleInRow, extractAndRemoveScalingAndShear, removeScalingAndShear and the 4x4 extract* / sans* wrappers; nothing else of C12 is).",
    "C15": "closest points, distances, reflections, plane / sphere / triangle intersection are metric statements through normalize, division and sqrt; the division-free fragments are too thin to stand for the property.",
    "C16": "projection / depth / plane / culling consistency needs rational identities with divisions, tan/atan2, normalised plane equations and real-geometry inclusion arguments; the Exc / non-Exc agreement of the ten Frustum pairs is decided under C07; the RETYPE route (C15) would need a hand-derived residual form per clause (nested inverses, tan) and was not attempted.",
}

PENDING_REASON = "not yet brought under contract in this revision of /verif (see DESIGN.md section 6 for the plan); no check is registered, nothing is claimed"


def main():
    props = [json.loads(l)["id"] for l in open(os.path.join(VERIF, "properties.jsonl")) if l.strip()]
    checks, na = [], []
    for p in props:
        if p in CLAIMED:
            c = CLAIMED[p]
            checks.append({
                "property_id": p,
                "quick_cmd": "./check %s --tier quick" % p,
                "thorough_cmd": "./check %s --tier thorough" % p,
                "evidence_file": "evidence/%s.json" % p,
                "replay_cmd_template": "./check %s --replay {path}" % p,
                "engine": "vf",
                "level_claimed": {"category": c.get("category", "proof"), "text": c["text"], "design_ref": c["ref"]},
                "level_note": c["note"],
                "technique": c["technique"],
            })
        else:
            na.append({"property_id": p, "reason": NA.get(p, PENDING_REASON)})
    m = {
        "version": 1,
        "setup_cmd": "sh ./setup.sh",
        "hooks": {
            "guard": "IMATH_VERIF",
            "enable": "no source hooks: contracts are attached by re-declaration in /verif/contracts and by mechanical extraction; -DIMATH_VERIF is passed to goto-cc for the harness files only",
            "baseline_off_cmd": "cmake --build /repo/_build && ctest --test-dir /repo/_build -j8 --timeout 900",
            "source_commits": [],
            "add_only": True,
        },
        "engines": [{"name": "vf", "path": "vf/", "serves_properties": sorted(CLAIMED),
                     "kind_free_text": "contract-based deductive verification: goto-cc + goto-instrument --dfcc (enforce/replace contracts, loop contracts) + cbmc with SAT, cvc5 or z3(som) back ends; native replay of counterexamples"}],
        "checks": checks,
        "not_applicable": na,
        "notes": "Exit codes of ./check: 0 all obligations discharged; 1 violation (VIOLATION line, replay file under replay/); 2 undecided (tool limit/timeout/extraction failure) - never reported as a violation.",
    }
    json.dump(m, open(os.path.join(VERIF, "MANIFEST.json"), "w"), indent=1)
    try:
        import jsonschema
        jsonschema.validate(m, json.load(open("/root/.vp/MANIFEST.schema.json")))
        print("MANIFEST valid; claimed:", sorted(CLAIMED))
    except ImportError:
        print("MANIFEST written (jsonschema not available)")


if __name__ == "__main__":
    main()
