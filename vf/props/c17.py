"""C17: scalar utilities and packed colours."""
import os
from ..core import Unit, VERIF, REPO, BUILD
from .. import extract

GEN = os.path.join(BUILD, "C17")
H = os.path.join(VERIF, "harness", "c17.c")
DRIVER = '''#include "%s/src/Imath/ImathFun.cpp"
#include "ImathColorAlgo.h"
using namespace IMATH_INTERNAL_NAMESPACE;
void use_c17 (float &f, double &d, int &i, bool &b, C4f &c4, V3f &v3, PackedColor &p)
{
    namespace IM = IMATH_INTERNAL_NAMESPACE;
    i = IM::floor (f); i = IM::ceil (f); i = IM::trunc (f); i = IM::floor (d); i = IM::ceil (d); i = IM::trunc (d);
    f = IMATH_INTERNAL_NAMESPACE::abs (f); i = IMATH_INTERNAL_NAMESPACE::abs (i); i = sign (f); i = sign (i); i = cmp (i, i); i = cmp (f, f); i = cmpt (i, i, i);
    b = iszero (i, i); b = iszero (f, f); b = equal (i, i, i); f = clamp (f, f, f); i = clamp (i, i, i);
    f = lerp (f, f, f); f = ulerp (f, f, f); f = lerpfactor (f, f, f); i = divs (i, i); i = mods (i, i); i = divp (i, i); i = modp (i, i);
    b = IMATH_INTERNAL_NAMESPACE::finitef (f); b = IMATH_INTERNAL_NAMESPACE::finited (d); f = succf (f); f = predf (f); d = succd (d); d = predd (d);
    p = rgb2packed (c4); p = rgb2packed (v3); packed2rgb (p, c4); packed2rgb (p, v3);
}
''' % REPO
ALIASES = {
    "floor_f": "floor<float>(float)", "ceil_f": "ceil<float>(float)", "trunc_f": "trunc<float>(float)",
    "floor_d": "floor<double>(double)", "ceil_d": "ceil<double>(double)", "trunc_d": "trunc<double>(double)",
    "abs_f": "abs<float>(float)", "abs_i": "abs<int>(int)", "sign_f": "sign<float>(float)", "sign_i": "sign<int>(int)",
    "cmp_i": "cmp<int>(int, int)", "cmp_f": "cmp<float>(float, float)", "cmpt_i": "cmpt<int>(int, int, int)",
    "iszero_i": "iszero<int>(int, int)", "iszero_f": "iszero<float>(float, float)", "equal_i": "equal<int,int,int>(int, int, int)",
    "clamp_f": "clamp<float>(float, float, float)", "clamp_i": "clamp<int>(int, int, int)",
    "lerp_f": "lerp<float,float>(float, float, float)", "ulerp_f": "ulerp<float,float>(float, float, float)", "lerpfactor_f": "lerpfactor<float>(float, float, float)",
    "divs": "divs(int, int)", "mods": "mods(int, int)", "divp": "divp(int, int)", "modp": "modp(int, int)",
    "finitef": "finitef(float)", "finited": "finited(double)", "succf": "succf(float)", "predf": "predf(float)", "succd": "succd(double)", "predd": "predd(double)",
    "rgb2packed_c4f": "rgb2packed<float>(const Color4<float> &)", "rgb2packed_v3f": "rgb2packed<float>(const Vec3<float> &)",
    "packed2rgb_c4f": "packed2rgb<float>(PackedColor, Color4<float> &)", "packed2rgb_v3f": "packed2rgb<float>(PackedColor, Vec3<float> &)",
}
EXTRACTION = {}
SATS = {"finitef", "finited", "sign_i", "abs_i", "cmp_i", "cmpt_i", "iszero_i", "equal_i", "clamp_i"}
HARD = {"divs", "mods", "divp", "modp"}


def units(tier):
    ex = extract.run_extraction("c17x", DRIVER, sorted(set(ALIASES.values())), outdir=GEN)
    os.makedirs(GEN, exist_ok=True)
    txt = "\n".join("#define F_%s %s" % (a, ex.names[s]) for a, s in ALIASES.items()) + "\n"
    p = os.path.join(GEN, "c17_names.h")
    if not os.path.exists(p) or open(p).read() != txt:
        open(p, "w").write(txt)
    EXTRACTION["c17x"] = {"functions": len(ex.order), "differential": {k: ex.diff.get(k) for k in ("tested", "cases")}, "skipped": ex.diff.get("skipped", [])}
    rp = {"src": H, "lang": "c", "cxx": [ex.shim_cpp], "includes": [GEN] + ex.includes}
    us = []
    for a, s in ALIASES.items():
        if "packed" in a:
            continue
        if a in HARD:
            # 32-bit division against division: full width cannot be PROVED by any installed back end.  A bounded
            # proof (labelled, not counted) plus a full-width refutation search (finds e.g. intermediate overflows).
            us.append(Unit("c17." + a + ".bounded", H, "h_" + a, enforce=[ex.names[s]], includes=[GEN], functions=[s], no_checks=True, backend="sat", mode="BIT",
                           defines=["VF_BOUND=1024"], bounded="|x|,|y| < 1024", timeout=600, cbmc_flags=["--unwind", "4", "--no-signed-overflow-check"],
                           clause="%s follows its definition on |x|,|y| < 1024" % s, replay=rp))
            us.append(Unit("c17." + a + ".fullwidth-search", H, "h_" + a, enforce=[ex.names[s]], includes=[GEN], functions=[s], no_checks=True, backend="sat", mode="BIT",
                           best_effort=True, timeout=60, cbmc_flags=["--unwind", "4", "--no-signed-overflow-check"],
                           clause="%s: full-width refutation search (60 s); a timeout decides nothing" % s, replay=rp))
            continue
        if a == "lerpfactor_f" and tier != "thorough":
            continue   # ~5 min in cvc5 (chained float divisions): thorough tier only
        abs_libm = a in ("succf", "predf", "succd", "predd")
        us.append(Unit("c17." + a, H, "h_" + a, enforce=[ex.names[s]], includes=[GEN], functions=[s], no_checks=True,
                       backend="sat" if (a in SATS or a in HARD) else "cvc5", mode="BIT" if a in SATS or a in HARD else "IEEE",
                       defines=["CXX2C_ABS_LIBM"] if abs_libm else [], timeout=1500 if a == "lerpfactor_f" else 300,
                       cbmc_flags=["--unwind", "4", "--no-signed-overflow-check", "--no-div-by-zero-check"] if False else ["--unwind", "4", "--no-signed-overflow-check"],
                       clause="%s follows its definition" % s, replay=rp,
                       assumptions=["nextafter is libm: uninterpreted; the wrapper is proved to forward finite inputs in the right direction"] if abs_libm else []))
    us.append(Unit("c17.lemma.divmod.bounded", H, "h_lemma_divmod", defines=["VF_BOUND=256"], bounded="|x|,|y| < 256 (32-bit division times multiplication defeats every installed back end at full width)", replace=[ex.names[ALIASES[k]] for k in ("divs", "mods", "divp", "modp")], includes=[GEN], backend="cvc5", mode="BIT",
                   functions=[ALIASES[k] for k in ("divs", "mods", "divp", "modp")], no_checks=True, cbmc_flags=["--unwind", "4", "--no-signed-overflow-check"], timeout=600,
                   clause="lemma from the four contracts: x == y*divs+mods and x == y*divp+modp", replay=rp))
    us.append(Unit("c17.packed.c4f", H, "h_packed_c4f", includes=[GEN], backend="sat", mode="IEEE", functions=[ALIASES["rgb2packed_c4f"], ALIASES["packed2rgb_c4f"]], no_checks=True,
                   cbmc_flags=["--unwind", "4", "--no-signed-overflow-check"], timeout=900, clause="rgb2packed(packed2rgb(p)) == p for Color4<float>, all 2^32 p", replay=rp))
    us.append(Unit("c17.packed.v3f", H, "h_packed_v3f", includes=[GEN], backend="sat", mode="IEEE", functions=[ALIASES["rgb2packed_v3f"], ALIASES["packed2rgb_v3f"]], no_checks=True,
                   cbmc_flags=["--unwind", "4", "--no-signed-overflow-check"], timeout=900, clause="rgb2packed(packed2rgb(p)) keeps the three colour channels for Vec3<float>", replay=rp))
    return us


def extra_coverage(units, tier):
    return {"extraction": EXTRACTION}


NOT_COVERED = [
    "lerpfactor inverts lerp (rounding), equalWithAbsError/RelError against abs(x1-x2) (two differently oriented subtractions defeat the back ends)",
    "solveLinear/Quadratic/NormalizedCubic/Cubic, rgb2hsv/hsv2rgb and their overload agreement, integer-element colour scaling: not under contract in this revision",
    "succ/pred adjacency itself is libm's nextafter (assumed)",
]
ASSUMPTIONS = ["nextafter uninterpreted", "cxx2c extraction rules; differential validation"]
