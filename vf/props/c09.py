"""C09 (algebraic clauses): transform builders and pre-multiplying in-place forms, RING mode."""
import os
from ..core import Unit, VERIF, REPO, BUILD
from .. import extract

GEN = os.path.join(BUILD, "C09")
H = os.path.join(VERIF, "harness", "c09.c")
DRIVER = '''#include "ImathMatrix.h"
#include "ImathShear.h"
using namespace IMATH_INTERNAL_NAMESPACE;
typedef unsigned U;
void use9 (Matrix44<U> &a, Matrix33<U> &b, Vec3<U> &v, Vec2<U> &p, Shear6<U> &h, U s, Matrix22<U> &c)
{
    a.setEulerAngles (v); a.rotate (v); b.setRotation (s); b.rotate (s); c.setRotation (s); c.rotate (s); c = c * c; c.setScale (s); c.setScale (p); c.scale (p);
    a.setTranslation (v); a.translate (v); a.setScale (v); a.setScale (s); a.scale (v); a.setShear (v); a.setShear (h); a.shear (v); a.shear (h); v = a.translation (); a = a * a;
    b.setTranslation (p); b.translate (p); b.setScale (p); b.setScale (s); b.scale (p); b.setShear (s); b.setShear (p); b.shear (s); b.shear (p); p = b.translation (); b = b * b;
}
'''
U_ = "unsigned int"
M4, M3, V3, V2, S6 = "Matrix44<%s>" % U_, "Matrix33<%s>" % U_, "Vec3<%s>" % U_, "Vec2<%s>" % U_, "Shear6<%s>" % U_
ALIASES = {
    "setTranslation44": "%s::setTranslation(const %s &)" % (M4, V3), "translate44": "%s::translate(const %s &)" % (M4, V3), "translation44": "%s::translation() const" % M4,
    "setScale44v": "%s::setScale(const %s &)" % (M4, V3), "setScale44s": "%s::setScale(%s)" % (M4, U_), "scale44": "%s::scale(const %s &)" % (M4, V3),
    "setShear44v": "%s::setShear(const %s &)" % (M4, V3), "setShear44s6": "%s::setShear(const %s &)" % (M4, S6), "shear44v": "%s::shear(const %s &)" % (M4, V3), "shear44s6": "%s::shear(const %s &)" % (M4, S6),
    "mul44": "%s::operator*(const %s &) const" % (M4, M4),
    "setTranslation33": "%s::setTranslation(const %s &)" % (M3, V2), "translate33": "%s::translate(const %s &)" % (M3, V2), "translation33": "%s::translation() const" % M3,
    "setScale33v": "%s::setScale(const %s &)" % (M3, V2), "scale33": "%s::scale(const %s &)" % (M3, V2),
    "setShear33v": "%s::setShear(const %s &)" % (M3, V2), "setShear33s": "%s::setShear(const %s &)" % (M3, U_), "shear33v": "%s::shear(const %s &)" % (M3, V2), "shear33s": "%s::shear(const %s &)" % (M3, U_),
    "mul33": "%s::operator*(const %s &) const" % (M3, M3),
    "setEuler44": "%s::setEulerAngles(const %s &)" % (M4, V3), "rotate44": "%s::rotate(const %s &)" % (M4, V3),
    "setRotation33": "%s::setRotation(%s)" % (M3, U_), "rotate33": "%s::rotate(%s)" % (M3, U_),
    "setRotation22": "Matrix22<%s>::setRotation(%s)" % (U_, U_), "rotate22": "Matrix22<%s>::rotate(%s)" % (U_, U_),
    "mul22": "Matrix22<%s>::operator*(const Matrix22<%s> &) const" % (U_, U_),
    "setScale22s": "Matrix22<%s>::setScale(%s)" % (U_, U_), "setScale22v": "Matrix22<%s>::setScale(const %s &)" % (U_, V2), "scale22": "Matrix22<%s>::scale(const %s &)" % (U_, V2),
}
# std::cos(unsigned) is libstdc++'s integer overload returning double
TYPE_MAP = {"__gnu_cxx::__enable_if<__is_integer<unsigned int>::__value,double>::__type": "double"}
RING_TRIG = [(r"^std::cos\(unsigned int\)$", "cxx2c_ring_cos"), (r"^std::sin\(unsigned int\)$", "cxx2c_ring_sin")]
ROT_UNITS = [("setEuler44", "setEulerAngles(r) == Rx(r.x) x Ry(r.y) x Rz(r.z), the elementary row-vector rotations built from the same cos/sin values; last row/column (0,0,0,1)"),
             ("rotate44", "rotate(r) == setEulerAngles(r) x M, arbitrary M (rows 0..2; row 3 unchanged)"),
             ("setRotation33", "3x3 / 2x2 setRotation(r) == [[c,s],[-s,c]] (+ homogeneous row/column)"),
             ("rotate33", "3x3 rotate(r) == M x setRotation(r) (right multiplication)"), ("rotate22", "2x2 rotate(r) == M x setRotation(r) (right multiplication)"),
             ("scale22", "2x2 setScale (scalar and Vec2) == diag(s); scale(s) == setScale(s) x M")]
EXTRACTION = {}
UNITS = [("setTranslation44", "setTranslation sends p to p+t; translation() returns the row"), ("setScale44", "setScale (vector and scalar) scales per axis"),
         ("setShear44", "setShear(Vec3) is the documented shear"), ("translate44", "translate(t) == setTranslation(t) x M, arbitrary M"),
         ("scale44", "scale(s) == setScale(s) x M, arbitrary M"), ("shear44v", "shear(Vec3) == setShear(Vec3) x M"), ("shear44s6", "shear(Shear6) == setShear(Shear6) x M"),
         ("builders33", "3x3 setTranslation / translation() / setScale act as documented"), ("translate33", "3x3 translate == setTranslation x M"),
         ("scale33", "3x3 scale == setScale x M"), ("shear33v", "3x3 shear(Vec2) == setShear(Vec2) x M"), ("shear33s", "3x3 shear(xy) == setShear(xy) x M")]


def units(tier):
    ex = extract.run_extraction("c09x", DRIVER, sorted(set(ALIASES.values())), outdir=GEN, type_map=TYPE_MAP, extern_patterns=RING_TRIG)
    os.makedirs(GEN, exist_ok=True)
    txt = "\n".join("#define F_%s %s" % (a, ex.names[s]) for a, s in ALIASES.items()) + "\n"
    p = os.path.join(GEN, "c09_names.h")
    if not os.path.exists(p) or open(p).read() != txt:
        open(p, "w").write(txt)
    EXTRACTION["c09x"] = {"functions": len(ex.order), "differential": {k: ex.diff.get(k) for k in ("tested", "cases")}, "skipped": ex.diff.get("skipped", [])}
    rp = {"src": H, "lang": "c", "cxx": [ex.shim_cpp], "includes": [GEN] + ex.includes}
    return [Unit("c09." + n, H, "h_" + n, includes=[GEN], backend="z3som", mode="RING", functions=sorted(set(ALIASES.values())), clause=c, no_checks=True,
                 cbmc_flags=["--unwind", "18", "--no-signed-overflow-check", "--object-bits", "10"], timeout=600, replay=rp,
                 assumptions=["RING: polynomial identities over Z/2^32 on the unsigned instantiation; transfer to float by same template + classical rounding bound (not machine-checked)"])
            for n, c in UNITS] + \
           [Unit("c09." + n, H, "h_" + n, includes=[GEN], backend="z3som", mode="RING", defines=["CXX2C_RING_TRIG"], functions=sorted(set(ALIASES.values())), clause=c, no_checks=True,
                 cbmc_flags=["--unwind", "18", "--no-signed-overflow-check", "--object-bits", "10"], timeout=600, replay=rp,
                 assumptions=["RING (see above); cos and sin are uninterpreted functions (same argument => same value): the clauses are polynomial identities in the cos/sin VALUES and need no trigonometric identity"])
            for n, c in ROT_UNITS]


def extra_coverage(units, tier):
    return {"extraction": EXTRACTION}


NOT_COVERED = [
    "orthonormality / determinant +1 of the rotation builders (needs c^2+s^2=1: ideal membership, not a polynomial identity); setAxisAngle (normalisation: sqrt and division)",
    "rotationMatrix*, alignZAxisWithTargetDir, computeLocalFrame, firstFrame/nextFrame/lastFrame (normalisation, acos, degeneracy thresholds): out of reach",
]
ASSUMPTIONS = ["RING mode (see C05)", "cxx2c extraction rules; differential validation"]
