"""C14: ray-box / line-box intersection - the clauses within reach."""
import os
from ..core import Unit, VERIF, REPO, BUILD
from .. import extract

GEN = os.path.join(BUILD, "C14")
H = os.path.join(VERIF, "harness", "c14.c")
DRIVER = '''#include "ImathBoxAlgo.h"
using namespace IMATH_INTERNAL_NAMESPACE;
void use14 (const Box<Vec3<float>> &b, const Line3<float> &r, Vec3<float> &p, Vec3<float> &q, bool &x) { x = intersects (b, r, p); x = intersects (b, r); x = findEntryAndExitPoints (r, b, p, q); }
'''
ALIASES = {"intersects_ip": "intersects<float>(const Box<Vec3<float>> &, const Line3<float> &, Vec3<float> &)",
           "intersects": "intersects<float>(const Box<Vec3<float>> &, const Line3<float> &)",
           "entryexit": "findEntryAndExitPoints<float>(const Line3<float> &, const Box<Vec3<float>> &, Vec3<float> &, Vec3<float> &)"}
EXTRACTION = {}


def units(tier):
    ex = extract.run_extraction("c14x", DRIVER, sorted(set(ALIASES.values())), outdir=GEN)
    os.makedirs(GEN, exist_ok=True)
    txt = "\n".join("#define F_%s %s" % (a, ex.names[s]) for a, s in ALIASES.items()) + "\n"
    p = os.path.join(GEN, "c14_names.h")
    if not os.path.exists(p) or open(p).read() != txt:
        open(p, "w").write(txt)
    EXTRACTION["c14x"] = {"functions": len(ex.order), "differential": {k: ex.diff.get(k) for k in ("tested", "cases")}, "skipped": ex.diff.get("skipped", [])}
    rp = {"src": H, "lang": "c", "cxx": [ex.shim_cpp], "includes": [GEN] + ex.includes}
    N = lambda a: ex.names[ALIASES[a]]
    us = []

    def U(name, entry, enforce=(), clause="", fns=(), backend="cvc5", timeout=900, best_effort=False, defines=(), mode="IEEE"):
        us.append(Unit("c14." + name, H, entry, enforce=list(enforce), includes=[GEN], functions=list(fns), clause=clause, backend=backend, mode=mode, defines=list(defines),
                       no_checks=True, timeout=timeout, replay=rp, best_effort=best_effort, cbmc_flags=["--unwind", "6", "--no-signed-overflow-check", "--object-bits", "10"]))
    # these clauses depend on comparisons and copies only: arithmetic uninterpreted (ABS), SAT
    U("intersects_ip", "h_intersects_ip", [N("intersects_ip")], "intersects(box, ray, ip): false for empty boxes; origin inside => true with ip == origin; frame = ip", [ALIASES["intersects_ip"]],
      backend="sat", mode="ABS", defines=["CXX2C_ABS_ARITH"])
    U("entryexit", "h_entryexit", [N("entryexit")], "findEntryAndExitPoints: false for empty boxes; frame = entry, exit", [ALIASES["entryexit"]],
      backend="sat", mode="ABS", defines=["CXX2C_ABS_ARITH"])
    U("lemma.wrapper", "h_lemma_wrapper", clause="intersects(box, ray) is the boolean of intersects(box, ray, ip)", fns=[ALIASES["intersects"], ALIASES["intersects_ip"]])
    U("lemma.perm_entryexit", "h_lemma_perm_entryexit", clause="findEntryAndExitPoints: cyclic relabelling of the axes (box and line) leaves the answer unchanged - the three per-axis blocks agree with each other",
      fns=[ALIASES["entryexit"]], backend=os.environ.get("C14_BE", "kissat"), mode="ABS", defines=["CXX2C_ABS_ARITH"])
    U("lemma.perm_intersects", "h_lemma_perm_intersects", clause="intersects(box, ray, ip): cyclic relabelling of the axes leaves the answer unchanged",
      fns=[ALIASES["intersects_ip"]], backend=os.environ.get("C14_BE", "kissat"), mode="ABS", defines=["CXX2C_ABS_ARITH"])
    # every reported point lies in the closed box (IEEE, all finite inputs): cvc5 exceeded 25 min, kissat needs ~4 min
    U("lemma.ip_in_box", "h_lemma_ip_in_box", clause="when intersects(box, ray, ip) is true, ip lies in the closed box - for every finite box, origin and direction (zero, denormal or huge components included), IEEE arithmetic",
      fns=[ALIASES["intersects_ip"]], backend="kissat", timeout=2400)
    if tier == "thorough" or os.environ.get("C14_INBOX"):
        # ~55 min with kissat: thorough tier only
        U("lemma.entryexit_in_box", "h_lemma_entryexit_in_box", fns=[ALIASES["entryexit"]], backend="kissat", timeout=9000, defines=["C14_SPAN"],
          clause="when findEntryAndExitPoints is true, entry and exit lie in the closed box - for unit directions (|dir|^2 in [0.99, 1.01], zero and denormal components included) and coordinates of magnitude <= 1e37, IEEE arithmetic")
    # lemma.ip_in_box / lemma.entryexit_in_box (reported points lie in the closed box): cvc5 exceeds 25 min on the IEEE formula - not claimed
    return us


def extra_coverage(units, tier):
    return {"extraction": EXTRACTION}


NOT_COVERED = [
    "'every reported point lies in the box' for findEntryAndExitPoints: entry / exit stay unset (true is returned) for a zero or very short direction and for boxes reaching +-FLT_MAX (no finite face crossing can be computed) - "
    "outside the documented domain (unit direction); with unit direction and |coordinates| <= 1e37 it is proved in the thorough tier (~55 min, kissat); the intersects(box, ray, ip) form is proved for all finite inputs in the quick tier",
    "'true exactly when some pos + t*dir, t >= 0, lies in the box': real-number geometry against rounded quotients - beyond the installed back ends",
    "points on the surface / on the ray to within rounding; mirror symmetry (dir >= 0 vs dir < 0 branches) - only the agreement of the three per-axis blocks with each other is proved",
]
ASSUMPTIONS = ["box corners, origin and direction finite and not NaN", "cxx2c extraction rules; differential validation"]
