"""C10 (algebraic clauses): quaternion / matrix consistency as homogenised polynomial identities, RING mode."""
import os
from ..core import Unit, VERIF, REPO, BUILD
from .. import extract

GEN = os.path.join(BUILD, "C10")
H = os.path.join(VERIF, "harness", "c10.c")
DRIVER = '''#include "ImathQuat.h"
#include "ImathMatrix.h"
using namespace IMATH_INTERNAL_NAMESPACE;
typedef unsigned U;
void use10 (Quat<U> &q, Vec3<U> &v, Matrix33<U> &m, Matrix44<U> &n) { v = q.rotateVector (v); v = v * q; m = q.toMatrix33 (); n = q.toMatrix44 (); q = q * q; q *= q; q = ~q; v = v * m; m = m * m; }
'''
U_ = "unsigned int"
Q, V3, M3 = "Quat<%s>" % U_, "Vec3<%s>" % U_, "Matrix33<%s>" % U_
ALIASES = {"rotateVector": "%s::rotateVector(const %s &) const" % (Q, V3), "vmulq": "operator*<%s>(const %s &, const %s &)" % (U_, V3, Q),
           "toMatrix33": "%s::toMatrix33() const" % Q, "toMatrix44": "%s::toMatrix44() const" % Q, "qmul": "operator*<%s>(const %s &, const %s &)" % (U_, Q, Q),
           "qmuleq": "%s::operator*=(const %s &)" % (Q, Q),
           "conj": "operator~<%s>(const %s &)" % (U_, Q), "v3m33": "operator*<%s,%s>(const %s &, const %s &)" % (U_, U_, V3, M3),
           "mul33": "%s::operator*(const %s &) const" % (M3, M3)}
EXTRACTION = {}
UNITS = [("vq_matrix", "v*q == v*q.toMatrix33() for every quaternion"), ("rotateVector", "rotateVector(v) == v*q + (N-1)v: agreement at unit norm"),
         ("toMatrix_blocks", "toMatrix33 / toMatrix44 same block, affine border"), ("product_matrix", "K(q1*q2) == K(q2)*K(q1) with K = M + (N-1)I: products correspond"),
         ("product_matrix_inplace", "the in-place spelling: after q1 *= q2 (q2 distinct or q1 itself), K(q1) == K(q2)*K(old q1)"),
         ("conjugate", "~q negates v only; q * ~q == (N,0,0,0)")]


def units(tier):
    ex = extract.run_extraction("c10x", DRIVER, sorted(set(ALIASES.values())), outdir=GEN)
    os.makedirs(GEN, exist_ok=True)
    txt = "\n".join("#define F_%s %s" % (a, ex.names[s]) for a, s in ALIASES.items()) + "\n"
    p = os.path.join(GEN, "c10_names.h")
    if not os.path.exists(p) or open(p).read() != txt:
        open(p, "w").write(txt)
    EXTRACTION["c10x"] = {"functions": len(ex.order), "differential": {k: ex.diff.get(k) for k in ("tested", "cases")}, "skipped": ex.diff.get("skipped", [])}
    rp = {"src": H, "lang": "c", "cxx": [ex.shim_cpp], "includes": [GEN] + ex.includes}
    return [Unit("c10." + n, H, "h_" + n, includes=[GEN], backend="z3som", mode="RING", functions=sorted(set(ALIASES.values())), clause=c, no_checks=True,
                 cbmc_flags=["--unwind", "6", "--no-signed-overflow-check", "--object-bits", "10"], timeout=600, replay=rp,
                 assumptions=["RING: identities hold for every quaternion over Z/2^32 (degree <= 4, 8 variables, small coefficients) and specialise to the property at unit norm"])
            for n, c in UNITS] + comp_units(tier) + inv_units(tier)


HC = os.path.join(VERIF, "harness", "c10_comp.c")
FDRIVER = '''#include "ImathQuat.h"
using namespace IMATH_INTERNAL_NAMESPACE;
void use10f (Quat<float> &a, Quat<float> &b, Quat<float> &c, Quat<float> &d, float t)
{
    a = intermediate (a, b, c); a = squad (a, b, c, d, t); a = spline (a, b, c, d, t); a = slerp (a, b, t); a = slerpShortestArc (a, b, t);
    a = b.inverse (); a = b.log (); a = b.exp (); a.normalize (); a = b * c; a = t * b; a = b + c; a = -b; t = a ^ b;
}
'''
QF = "const Quat<float> &"
FALIASES = {"intermediate": "intermediate<float>(%s, %s, %s)" % (QF, QF, QF), "squad": "squad<float>(%s, %s, %s, %s, float)" % (QF, QF, QF, QF),
            "spline": "spline<float>(%s, %s, %s, %s, float)" % (QF, QF, QF, QF), "slerp": "slerp<float>(%s, %s, float)" % (QF, QF),
            "slerpShortestArc": "slerpShortestArc<float>(%s, %s, float)" % (QF, QF), "inverse": "Quat<float>::inverse() const", "log": "Quat<float>::log() const",
            "exp": "Quat<float>::exp() const", "normalize": "Quat<float>::normalize()", "qmul": "operator*<float>(%s, %s)" % (QF, QF), "smul": "operator*<float>(float, %s)" % QF,
            "qadd": "operator+<float>(%s, %s)" % (QF, QF), "qneg": "operator-<float>(%s)" % QF, "qdot": "operator^<float>(%s, %s)" % (QF, QF)}
COMP = [("shortestArc", ["slerpShortestArc", "slerp"], "slerpShortestArc(q1,q2,t) == slerp(q1, (q1^q2) >= 0 ? q2 : -q2, t): never the long way round"),
        ("squad", ["squad", "slerp"], "squad(q1,qa,qb,q2,t) == slerp(slerp(q1,q2,t), slerp(qa,qb,t), 2t(1-t))"),
        ("intermediate", ["intermediate", "inverse", "log", "exp", "normalize", "qmul"], "intermediate(q0,q1,q2) == normalized(q1 * exp(-1/4 (log(q1^-1 q0) + log(q1^-1 q2)))) (operand order: quaternions do not commute)"),
        ("spline", ["spline", "squad", "intermediate"], "spline(q0,q1,q2,q3,t) == squad(q1, intermediate(q0,q1,q2), intermediate(q1,q2,q3), q2, t)")]


def comp_units(tier):
    ex = extract.run_extraction("c10fx", FDRIVER, sorted(set(FALIASES.values())), outdir=GEN)
    txt = "\n".join("#define F_%s %s" % (a, ex.names[s]) for a, s in FALIASES.items()) + "\n"
    p = os.path.join(GEN, "c10f_names.h")
    if not os.path.exists(p) or open(p).read() != txt:
        open(p, "w").write(txt)
    EXTRACTION["c10fx"] = {"functions": len(ex.order), "differential": {k: ex.diff.get(k) for k in ("tested", "cases")}, "skipped": ex.diff.get("skipped", [])}
    exs = extract.run_extraction("c10fs", FDRIVER, sorted(set(FALIASES.values())), outdir=GEN, diff=False,
                                 extern_patterns=[(r"^intermediate\(", "cxx2c_c10_intermediate"), (r"^squad\(", "cxx2c_c10_squad")])
    assert all(exs.names[v] == ex.names[v] for v in FALIASES.values())
    EXTRACTION["c10fs"] = {"functions": len(exs.order), "note": "same functions with calls to intermediate / squad left external (pure-function models) for the modular spline unit; differential validation is that of c10fx"}
    rp = {"src": HC, "lang": "c", "cxx": [ex.shim_cpp], "includes": [GEN] + ex.includes}
    return [Unit("c10.comp." + n, HC, "h_comp_" + n, includes=[GEN], backend=os.environ.get("C10_BE", "kissat" if n == "intermediate" else "cvc5"), mode="ABS", defines=["CXX2C_ABS_ARITH", "CXX2C_ABS_LIBM"] + (["C10_MODULAR"] if n == "spline" else []), functions=[FALIASES[f] for f in fns], clause=c,
                 no_checks=True, cbmc_flags=["--unwind", "6", "--no-signed-overflow-check", "--object-bits", "10"], timeout=600, replay=rp,
                 assumptions=["+ - * / and libm uninterpreted: only the composition structure (which library operations, in which operand order) is decided; the analytic clauses (tangent continuity, unit norm, endpoint values) are not"])
            for n, fns, c in COMP]


IDRIVER = '''#include "ImathQuat.h"
using namespace IMATH_INTERNAL_NAMESPACE;
void use10i (Quat<float> &a, Quat<float> &b) { a = b.inverse (); a = a * b; }
'''
IAL = {"inverse": "Quat<float>::inverse() const", "qmul": "operator*<float>(const Quat<float> &, const Quat<float> &)"}


def inv_units(tier):
    """q * inverse(q): RETYPE (see C15 / DESIGN 10.1)"""
    from . import c15
    ex = extract.run_extraction("c10ix", IDRIVER, sorted(IAL.values()), outdir=GEN, extern_patterns=c15.LIMITS)
    c15.literal_check(ex.c_path)
    txt = "\n".join("#define F_%s %s" % (a, ex.names[sp]) for a, sp in IAL.items()) + "\n"
    p = os.path.join(GEN, "c10i_names.h")
    if not os.path.exists(p) or open(p).read() != txt:
        open(p, "w").write(txt)
    EXTRACTION["c10ix"] = {"functions": len(ex.order), "differential": {k: ex.diff.get(k) for k in ("tested", "cases")}, "skipped": ex.diff.get("skipped", []), "retype": "float := int"}
    HI = os.path.join(VERIF, "harness", "c10_inv.c")
    return [Unit("c10.inverse", HI, "h_inverse", includes=[GEN], backend="z3som", mode="RING", functions=sorted(IAL.values()), no_checks=True, timeout=600,
                 cbmc_flags=["--unwind", "6", "--no-signed-overflow-check", "--no-div-by-zero-check", "--object-bits", "10"],
                 replay={"src": HI, "lang": "c", "cxx": [ex.shim_cpp], "includes": [GEN] + ex.includes},
                 clause="inverse(q) == conjugate(q) / (q^q); q * inverse(q) == inverse(q) * q == (N inv(N), 0, 0, 0): the identity quaternion for q != 0 (RETYPE: exact-arithmetic identity with the residual N inv(N) explicit)",
                 assumptions=["RETYPE: the float instantiation's extracted text evaluated over Z/2^32; a/b = a*inv(b) with inv uninterpreted; rounding is not covered"])]


def extra_coverage(units, tier):
    return {"extraction": EXTRACTION}


NOT_COVERED = [
    "exp(log q), setAxisAngle(axis(),angle()), extractQuat(toMatrix44), setRotation(from,to) incl. the antipodal fallback, slerp itself (unit norm, endpoints, linear 4-D angle), tangent continuity of spline (analytic; only the composition structure of slerpShortestArc / squad / intermediate / spline is proved), Quat vs Matrix44 setAxisAngle: transcendental functions and normalisation",
]
ASSUMPTIONS = ["RING mode (see C05)", "cxx2c extraction rules; differential validation"]
