"""C02: every half-conversion back end and language mode returns identical bits."""
import os, re, subprocess, concurrent.futures as cf
from ..core import Unit, VERIF, REPO, BUILD, Undecided, sh, std_includes, make_config
from .. import extract
from . import c01

GEN = os.path.join(BUILD, "C02")
H1 = os.path.join(VERIF, "harness", "c01.c")
HG = os.path.join(VERIF, "harness", "c02_gen.c")
EXTRA = {}
DRIVER = '''#include "half.h"
using namespace IMATH_INTERNAL_NAMESPACE;
void use_c02 (half &a, float &f) { a = half (f); f = float (a); }
'''
WANTED = ["imath_float_to_half(float)", "imath_half_to_float(imath_half_bits_t)", "half::half(float)", "half::operator float() const"]


def cut_generator():
    src = open(os.path.join(REPO, "src/Imath/toFloat.cpp")).read()
    m = re.search(r"^unsigned int\nhalfToFloat \(unsigned short y\)\n\{\n.*?^\}\n", src, re.S | re.M)
    if not m or src.count("halfToFloat (unsigned short y)") != 1:
        raise Undecided("extraction: halfToFloat() not found in toFloat.cpp in the expected form")
    os.makedirs(GEN, exist_ok=True)
    p = os.path.join(GEN, "c02_halfToFloat.inc")
    txt = "/* cut from /repo/src/Imath/toFloat.cpp */\n" + m.group(0)
    if not os.path.exists(p) or open(p).read() != txt:
        open(p, "w").write(txt)


def static_facts():
    facts = {}
    # (1) nothing in the library assigns the table pointer after its definition
    hits = []
    for root, _, files in os.walk(os.path.join(REPO, "src")):
        for fn in files:
            if fn.endswith((".h", ".cpp", ".c")):
                t = open(os.path.join(root, fn), errors="replace").read()
                for m in re.finditer(r"imath_half_to_float_table\s*=[^=]", t):
                    hits.append(os.path.relpath(os.path.join(root, fn), REPO))
    facts["table_pointer_assignments"] = sorted(hits)
    if sorted(set(hits)) != ["src/Imath/half.cpp"]:
        raise Undecided("static fact failed: imath_half_to_float_table is assigned in %s" % hits)
    # (2) language-mode invariance of the emitted C for the conversions and the two members
    texts = {}
    for std in ("c++14", "c++17", "c++20"):
        ex = extract.run_extraction("c02x_" + std.replace("+", "p"), DRIVER, WANTED, outdir=GEN, std=std,
                                    defines=["IMATH_HALF_NO_LOOKUP_TABLE"], diff=(std == "c++17"))
        body = open(ex.c_path).read()
        body = re.sub(r'#include "[^"]*"\n', "", body)
        texts[std] = body
    facts["emitted_C_identical_under_cxx14_17_20"] = (texts["c++14"] == texts["c++17"] == texts["c++20"])
    if not facts["emitted_C_identical_under_cxx14_17_20"]:
        raise Undecided("static fact failed: extraction differs between -std=c++14/17/20")
    return facts


def units(tier):
    gen = c01.cut_half_table()
    cut_generator()
    EXTRA["static_facts"] = static_facts()
    F2H, H2F = "imath_float_to_half (half.h)", "imath_half_to_float (half.h)"
    RP = {"src": H1, "lang": "c"}
    UW = ["--unwind", "12", "--unwinding-assertions"]
    us = []
    # float->half has no table variant: same contract under every configuration of the C inclusion
    for name, defs in (("default-config", []), ("no-table", ["IMATH_HALF_NO_LOOKUP_TABLE"]), ("table-forced", ["IMATH_HALF_USE_LOOKUP_TABLE"])):
        us.append(Unit("c02.f2h." + name, H1, "h_f2h", enforce=["imath_float_to_half"], defines=defs + (["VF_WITH_TABLE"] if name != "no-table" else []), includes=[gen], functions=[F2H],
                       cbmc_flags=UW, clause="float->half == RNE spec under configuration '%s' (plain C inclusion)" % name, replay=RP))
    us.append(Unit("c02.h2f.shift", H1, "h_h2f", enforce=["imath_half_to_float"], defines=["IMATH_HALF_NO_LOOKUP_TABLE"], functions=[H2F], cbmc_flags=UW,
                   clause="half->float bit-shift build == binary16 value (the same spec as the table build)", replay=RP))
    us.append(Unit("c02.h2f.table", H1, "h_h2f", enforce=["imath_half_to_float"], defines=["IMATH_HALF_USE_LOOKUP_TABLE", "VF_WITH_TABLE"], includes=[gen], functions=[H2F + " table path"],
                   cbmc_flags=UW + ["--arrays-uf-always"], clause="half->float table build == binary16 value given the table lemma", replay=RP))
    us += c01.gen_table_units(gen)
    for u in us:
        if u.name.startswith("c01.table"):
            u.name = u.name.replace("c01.", "c02.")
    # the generator
    us.append(Unit("c02.generator", HG, "h_gen", enforce=["halfToFloat"], includes=[GEN], functions=["halfToFloat (toFloat.cpp)"], no_checks=True,
                   cbmc_flags=["--unwind", "12", "--no-signed-overflow-check"],
                   clause="the generator's halfToFloat(y) == binary16 value for all y; with the table lemma: the shipped table is what the generator computes",
                   replay={"src": HG, "lang": "c", "includes": [GEN]},
                   assumptions=["'s << 31' on int s is the C++14-and-later shift (result converted to int): signed-overflow check off for this unit"]))
    # the C++ inclusion: conversions and the two members, extracted at -std=c++17 (identical at 14/20, static fact)
    ex = extract.run_extraction("c02x_cpp17", DRIVER, WANTED, outdir=GEN, std="c++17", defines=["IMATH_HALF_NO_LOOKUP_TABLE"])
    H3 = os.path.join(VERIF, "harness", "c03.c")
    import importlib
    c03 = importlib.import_module("vf.props.c03")
    c03u = {u.name: u for u in c03.units(tier)}
    for k in ("c03.f2h.cxx", "c03.h2f.cxx", "c03.ctor", "c03.cast", "c03.roundtrip.members"):
        u = c03u[k]
        u.name = k.replace("c03.", "c02.cxx.")
        us.append(u)
    if tier == "thorough":
        EXTRA["f16c_stand_in"] = f16c_stand_in()
    return us


def f16c_stand_in():
    """bounded stand-in, labelled, never counted as proved"""
    if "f16c" not in open("/proc/cpuinfo").read():
        return {"status": "not run: CPU has no F16C"}
    exe = os.path.join(GEN, "f16c.bin")
    rc, so, se, _ = sh(["gcc", "-O2", "-mf16c", "-DIMATH_HALF_NO_LOOKUP_TABLE"] + std_includes() + [os.path.join(VERIF, "harness", "c02_f16c.c"), "-o", exe], timeout=300)
    if rc != 0:
        return {"status": "build failed: " + se[-300:]}
    parts = 16
    with cf.ThreadPoolExecutor(max_workers=parts) as ex:
        res = list(ex.map(lambda i: sh([exe, str(i), str(parts)], timeout=1800), range(parts)))
    os.remove(exe)
    bad = sum(1 for r in res if r[0] != 0)
    cases = sum(int(re.search(r"cases (\d+)", r[1]).group(1)) for r in res if re.search(r"cases (\d+)", r[1]))
    return {"status": "exhaustive native enumeration of the F16C build (bounded stand-in, not a proof)", "cases": cases, "mismatching_parts": bad,
            "first_output": [r[1][:200] for r in res if r[0] != 0][:2]}


def extra_coverage(units, tier):
    d = dict(EXTRA)
    if "f16c_stand_in" in d and d["f16c_stand_in"].get("mismatching_parts"):
        d["f16c_stand_in"]["note"] = "MISMATCH in the stand-in - see output"
    return d


NOT_COVERED = [
    "that toFloat.cpp's main() prints those values in toFloat.h's textual format (iostream)",
    "F16C hardware path: compiler builtins have no CBMC model; thorough tier runs a labelled exhaustive native stand-in (never counted as proved)",
    "half->float through the C++ inclusion with the lookup table (the C inclusion of the table path and the C++ inclusion of the bit-shift path are covered)",
]
ASSUMPTIONS = ["x86intrin.h stubbed when half.h is parsed by goto-cc / clang for extraction",
               "table and generator cut from half.cpp / toFloat.cpp by regular expression (must-fire)",
               "static facts (supporting): the table pointer is assigned only at its definition; the extracted C of the conversions and of half(float)/operator float is textually identical under -std=c++14/17/20"]
