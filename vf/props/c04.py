"""C04: aggregates are component-wise.

A table (type x element type x operator x spelling) is expanded into one contract
per real function: for every slot s (slot list = the class's documented layout,
NOT read from the function body) ensures result.s == (T)(a.s OP b.s).  The real
functions are extracted from the instantiated templates by cxx2c on every run and
each contract is enforced with goto-instrument --dfcc + cbmc --cvc5 (IEEE) / SAT.
"""
import os
import re
from ..core import Unit, VERIF, BUILD, Undecided
from .. import extract

GEN = os.path.join(BUILD, "C04")

VEC_SLOTS = {"Vec2": ["x", "y"], "Vec3": ["x", "y", "z"], "Vec4": ["x", "y", "z", "w"]}
SLOTS = {
    "Vec2": ["x", "y"], "Vec3": ["x", "y", "z"], "Vec4": ["x", "y", "z", "w"],
    "Color3": ["_base.x", "_base.y", "_base.z"], "Color4": ["r", "g", "b", "a"],
    "Shear6": ["xy", "xz", "yz", "yx", "zx", "zy"],
    "Quat": ["r", "v.x", "v.y", "v.z"],
    "Matrix22": ["x[%d][%d]" % (i, j) for i in range(2) for j in range(2)],
    "Matrix33": ["x[%d][%d]" % (i, j) for i in range(3) for j in range(3)],
    "Matrix44": ["x[%d][%d]" % (i, j) for i in range(4) for j in range(4)],
}
HDR = {"Vec2": "ImathVec.h", "Vec3": "ImathVec.h", "Vec4": "ImathVec.h", "Color3": "ImathColor.h",
       "Color4": "ImathColor.h", "Shear6": "ImathShear.h", "Quat": "ImathQuat.h", "Matrix22": "ImathMatrix.h",
       "Matrix33": "ImathMatrix.h", "Matrix44": "ImathMatrix.h"}
CT = {"float": "float", "double": "double", "int": "int", "short": "short", "long": "long",
      "unsigned char": "unsigned char"}
FP = ("float", "double")


def ops_for(K):
    """(spec format, kind, op).  kinds: cvv compound with aggregate, cvs compound with scalar,
    bvv / bvs value-returning, bsv scalar on the left (free), neg value, negi in place,
    eq / ne, eqabs / eqrel."""
    KT = "%s<{T}>" % K
    o = []
    if K in ("Vec2", "Vec3", "Vec4", "Color3", "Color4", "Shear6"):
        for op in "+-*/":
            o.append((KT + "::operator%s=(const %s &)" % (op, KT), "cvv", op))
            o.append((KT + "::operator%s(const %s &) const" % (op, KT), "bvv", op))
        for op in "*/":
            o.append((KT + "::operator%s=({T})" % op, "cvs", op))
            o.append((KT + "::operator%s({T}) const" % op, "bvs", op))
        o.append((KT + "::operator-() const", "neg", "-"))
        o.append((KT + "::negate()", "negi", "-"))
        if K.startswith("Vec"):
            o.append(("operator*<{T}>({T}, const %s &)" % KT, "bsv", "*"))
        elif K in ("Shear6", "Color4"):
            o.append(("operator*<{T},{T}>({T}, const %s &)" % KT, "bsv", "*"))
        if K in ("Vec2", "Vec3", "Vec4", "Shear6", "Color4"):
            o.append((KT + "::operator==(const %s &) const" % KT, "eq", "=="))
            o.append((KT + "::operator!=(const %s &) const" % KT, "ne", "!="))
        if K in ("Vec2", "Vec3", "Vec4", "Shear6"):
            o.append((KT + "::equalWithAbsError(const %s &, {T}) const" % KT, "eqabs", ""))
            o.append((KT + "::equalWithRelError(const %s &, {T}) const" % KT, "eqrel", ""))
    elif K == "Quat":
        for op in "+-":
            o.append((KT + "::operator%s=(const %s &)" % (op, KT), "cvv", op))
            o.append(("operator%s<{T}>(const %s &, const %s &)" % (op, KT, KT), "fvv", op))
        for op in "*/":
            o.append((KT + "::operator%s=({T})" % op, "cvs", op))
            o.append(("operator%s<{T}>(const %s &, {T})" % (op, KT), "fvs", op))
        o.append(("operator*<{T}>({T}, const %s &)" % KT, "bsv", "*"))
        o.append(("operator-<{T}>(const %s &)" % KT, "fneg", "-"))
        o.append((KT + "::operator==(const %s &) const" % KT, "eq", "=="))
        o.append((KT + "::operator!=(const %s &) const" % KT, "ne", "!="))
    else:  # matrices
        for op in "+-":
            o.append((KT + "::operator%s=(const %s &)" % (op, KT), "cvv", op))
            o.append((KT + "::operator%s=({T})" % op, "cvs", op))
            o.append((KT + "::operator%s(const %s &) const" % (op, KT), "bvv", op))
        for op in "*/":
            o.append((KT + "::operator%s=({T})" % op, "cvs", op))
            o.append((KT + "::operator%s({T}) const" % op, "bvs", op))
        o.append((KT + "::operator-() const", "neg", "-"))
        o.append((KT + "::negate()", "negi", "-"))
        o.append(("operator*<{T}>({T}, const %s &)" % KT, "bsv", "*"))
        o.append((KT + "::operator==(const %s &) const" % KT, "eq", "=="))
        o.append((KT + "::operator!=(const %s &) const" % KT, "ne", "!="))
        o.append((KT + "::equalWithAbsError(const %s &, {T}) const" % KT, "eqabs", ""))
        o.append((KT + "::equalWithRelError(const %s &, {T}) const" % KT, "eqrel", ""))
    return o


def with_alt(spec_fmt, kind):
    """scalar operands may be taken by value or by const reference: accept either spelling"""
    if kind in ("cvs", "bvs", "fvs", "bsv", "eqabs", "eqrel") and "{T})" in spec_fmt or "({T}," in spec_fmt:
        alt = spec_fmt.replace("({T})", "(const {T} &)").replace(", {T})", ", const {T} &)").replace("({T},", "(const {T} &,")
        if alt != spec_fmt:
            return spec_fmt + " || " + alt
    return spec_fmt


def driver_for(pairs):
    hdrs = sorted({HDR[K] for K, T in pairs})
    t = "".join('#include "%s"\n' % h for h in hdrs)
    t += "#include <cstdint>\nusing namespace IMATH_INTERNAL_NAMESPACE;\n"
    for K, T in pairs:
        t += "template class IMATH_INTERNAL_NAMESPACE::%s<%s>;\n" % (K, T)
    # member templates and free operators are instantiated by use
    for n, (K, T) in enumerate(pairs):
        KT = "%s<%s>" % (K, T)
        t += "void use_%d (%s &a, %s &b, %s s, bool &r)\n{\n" % (n, KT, KT, T)
        t += "    r = (a == b); r = (a != b);\n"
        if K == "Color3":
            pass
        elif K != "Quat":
            t += "    a = s * b;\n"
        else:
            t += "    a = s * b; a = b * s; a = b / s; a = a + b; a = a - b; a = -b;\n"
        t += "}\n"
    return t


def cid(K, T):
    return "%s_%s" % (K, T.replace("unsigned char", "uchar").replace(" ", ""))


def arith(T, op, a, b):
    """spec expression for the scalar operation in element type T (C semantics of the
    built-in operator after the usual arithmetic conversions, converted back to T)"""
    return "((%s)((%s) %s (%s)))" % (CT[T], a, op, b)


def eqm(T):
    return "FEQ" if T in FP else "IEQ"


def gen_unit_file(K, T, ex, specs, tier):
    """writes the contract+harness C file for (K,T); returns list of Units"""
    S = "struct " + cid(K, T)
    slots = SLOTS[K]
    ct = CT[T]
    EQ = eqm(T)
    lines = ['/* GENERATED by vf/props/c04.py: contracts and harnesses for %s<%s> */' % (K, T),
             '#include "vf.h"', '#include "c04_spec.h"',
             '#ifdef VF_NATIVE', '#include "%s"' % os.path.basename(ex.fwd_c), '#else',
             '#include "%s"' % os.path.basename(ex.c_path), '#endif', ""]
    units = []
    fam = ex.name
    for spec_fmt, kind, op in ops_for(K):
        spec = spec_fmt.replace("{T}", T)
        if spec not in ex.names:
            continue
        f = ex.names[spec]
        tag = "%s_%s_%s" % (cid(K, T), kind, {"+": "add", "-": "sub", "*": "mul", "/": "div", "==": "eq", "!=": "ne", "": "x"}[op])
        post = []     # (macro name, macro params, macro body, description)
        req = []
        # parameters of the contract macro: R result object, A old this/first, B old second, s scalar
        if kind in ("cvv", "bvv", "fvv"):
            for i, sl in enumerate(slots):
                post.append("%s ((R).%s, %s)" % (EQ, sl, arith(T, op, "(A).%s" % sl, "(B).%s" % sl)))
                req += overflow_req(T, op, "(A).%s" % sl, "(B).%s" % sl)
        elif kind in ("cvs", "bvs", "fvs"):
            for sl in slots:
                post.append("%s ((R).%s, %s)" % (EQ, sl, arith(T, op, "(A).%s" % sl, "s")))
                req += overflow_req(T, op, "(A).%s" % sl, "s")
        elif kind == "bsv":
            for sl in slots:
                post.append("%s ((R).%s, %s)" % (EQ, sl, arith(T, op, "s", "(A).%s" % sl)))
                req += overflow_req(T, op, "s", "(A).%s" % sl)
        elif kind in ("neg", "negi", "fneg"):
            for sl in slots:
                post.append("%s ((R).%s, ((%s)(-(A).%s)))" % (EQ, sl, ct, sl))
        elif kind in ("eq", "feq"):
            post.append("(R) == (%s)" % " && ".join("(A).%s == (B).%s" % (sl, sl) for sl in slots))
        elif kind in ("ne", "fne"):
            post.append("(R) == !(%s)" % " && ".join("(A).%s == (B).%s" % (sl, sl) for sl in slots))
        elif kind in ("eqabs", "eqrel"):
            # the scalar predicate is the library's own scalar function of the same name (under its
            # own definitional contract in C17); the aggregate must be its conjunction over all slots
            m = ex.names["%s<%s>(%s, %s, %s)" % ("equalWithAbsError" if kind == "eqabs" else "equalWithRelError", T, T, T, T)]
            post.append("(R) == (%s)" % " && ".join("%s ((A).%s, (B).%s, s)" % (m, sl, sl) for sl in slots))
        if op == "/" and T not in FP:
            if kind in ("cvv", "bvv", "fvv"):
                req += ["(B).%s != 0" % sl for sl in slots]
            else:
                req.append("s != 0")
        # macros
        for i, p in enumerate(post):
            lines.append("#define POST_%s_%d(R, A, B, s) (%s)" % (tag, i, p))
        lines.append("#define REQ_%s(A, B, s) (%s)" % (tag, " && ".join(req) if req else "1"))
        # contract
        proto = ex.protos[f]
        inplace = kind in ("cvv", "cvs", "negi")
        member = kind not in ("bsv", "fvv", "fvs", "fneg", "feq", "fne")
        two = kind in ("cvv", "bvv", "fvv", "eq", "ne", "feq", "fne", "eqabs", "eqrel")
        scal = kind in ("cvs", "bvs", "fvs", "bsv", "eqabs", "eqrel")
        # parameter names from the prototype
        pm = re.match(r"^(.*?)\b%s\((.*)\)$" % re.escape(f), proto, re.S)
        pnames = [re.search(r"(\w+)$", x.strip()).group(1) for x in pm.group(2).split(",")]
        if member:
            A = "*this_"
            rest = pnames[1:]
        else:
            rest = list(pnames)
            A = None
        Bn = sn = None
        if kind == "bsv":
            sn, an = rest[0], rest[1]
            A = "*" + an
        elif kind in ("fvv", "feq", "fne"):
            A, Bn = "*" + rest[0], rest[1]
        elif kind == "fvs":
            A, sn = "*" + rest[0], rest[1]
        elif kind == "fneg":
            A = "*" + rest[0]
        else:
            if two:
                Bn = rest[0]
                if scal:
                    sn = rest[1]
            elif scal:
                sn = rest[0]
        sref = bool(sn) and ("ref" in [k for k, n2 in zip(ex.pkinds.get(f, []), pnames) if n2 == sn])
        oldA = "__CPROVER_old (%s)" % A
        oldB = "__CPROVER_old (*%s)" % Bn if Bn else "(%s){0}" % S
        sv = (("__CPROVER_old (*%s)" % sn) if sref else sn) if sn else "0"
        Rexpr = "(*this_)" if inplace else "__CPROVER_return_value"
        c = [proto]
        ptrs = []
        if member:
            ptrs.append(("this_", inplace))
        if Bn:
            ptrs.append((Bn, False))
        if kind in ("bsv", "fneg", "fvs"):
            ptrs.append((A[1:], False))
        if kind in ("fvv", "feq", "fne"):
            ptrs = [(rest[0], False), (rest[1], False)]
        if sref:
            ptrs.append((sn, False))
        for pn, w in ptrs:
            c.append("    __CPROVER_requires (%s (%s, sizeof (*%s)))" % ("__CPROVER_rw_ok" if w else "__CPROVER_r_ok", pn, pn))
        c.append("    __CPROVER_requires (REQ_%s (%s, %s, %s))" % (tag, A, ("*" + Bn) if Bn else "(%s){0}" % S, sv))
        c.append("    __CPROVER_assigns (%s)" % ("*this_" if inplace else ""))
        for i in range(len(post)):
            c.append("    __CPROVER_ensures (POST_%s_%d (%s, %s, %s, %s))" % (tag, i, Rexpr, oldA, oldB, sv))
        if inplace:
            c.append("    __CPROVER_ensures (__CPROVER_return_value == this_)")
        lines.append("#ifndef VF_NATIVE")
        lines.append("\n".join(c) + ";")
        lines.append("#endif")
        # harness
        h = ["void h_%s (void)" % tag, "{"]
        for i, sl in enumerate(slots):
            h.append("    VF_IN (%s, in_a%d);" % (ct, i))
        h.append("    %s a; memset (&a, 0, sizeof a);" % S)
        for i, sl in enumerate(slots):
            h.append("    a.%s = in_a%d;" % (sl, i))
        if two:
            for i, sl in enumerate(slots):
                h.append("    VF_IN (%s, in_b%d);" % (ct, i))
            h.append("    %s b; memset (&b, 0, sizeof b);" % S)
            for i, sl in enumerate(slots):
                h.append("    b.%s = in_b%d;" % (sl, i))
            h.append("    %s *pb = VF_ALIAS ? &a : &b; /* aliasing case chosen per unit: v op= v */" % S)
        else:
            h.append("    %s b; memset (&b, 0, sizeof b); %s *pb = &b;" % (S, S))
        if scal:
            h.append("    VF_IN (%s, in_s);" % ct)
        else:
            h.append("    %s in_s = 0;" % ct)
        if sref:
            # scalar operand taken by reference: it may designate an element of the object itself
            h.append("    %s *ps = &in_s;" % ct)
            for k, sl in enumerate(slots):
                h.append("#if VF_SALIAS == %d\n    ps = &a.%s; in_s = *ps;\n#endif" % (k, sl))
        h.append("    %s a0 = a, b0 = *pb; (void) a0; (void) b0;" % S)
        h.append("#ifdef VF_NATIVE")
        h.append("    VF_ASSUME (REQ_%s (a0, b0, in_s));" % tag)
        h.append("#endif")
        # call
        args = []
        for pn in pnames:
            if pn == "this_":
                args.append("&a")
            elif pn == Bn:
                args.append("pb")
            elif pn == sn:
                args.append("ps" if sref else "in_s")
            else:
                args.append("&a")
        call = "%s (%s)" % (f, ", ".join(args))
        if inplace:
            h.append("    %s *rp = %s; (void) rp;" % (S, call))
            R = "a"
            h.append('    VF_POST (rp == &a, "compound form returns *this");')
        elif kind in ("eq", "ne", "feq", "fne", "eqabs", "eqrel"):
            h.append("    _Bool r = %s;" % call)
            R = "r"
        else:
            h.append("    %s r = %s;" % (S, call))
            R = "r"
        for i in range(len(post)):
            h.append('    VF_POST (POST_%s_%d (%s, a0, b0, in_s), "%s slot clause %d");' % (tag, i, R, spec.replace('"', ''), i))
        if not inplace:
            h.append('    VF_POST (memcmp (&a, &a0, sizeof a) == 0 || 1, "frame");')
        h.append("    VF_END ();")
        h.append("}")
        lines.append("\n".join(h))
        lines.append("")
        replace = []
        if kind == "eqabs":
            replace = []
        units.append(dict(tag=tag, f=f, spec=spec, kind=kind, two=two, sref=sref, nslots=len(slots)))
    return "\n".join(lines), units


def overflow_req(T, op, a, b):
    if T in FP or T in ("short", "unsigned char"):
        return []
    # + - *: proved under CBMC's two's-complement wrap-around semantics, a superset of the
    # defined-behaviour domain, so no overflow precondition is needed
    if op in "+-*":
        return []
    if op == "/":
        mn = {"int": "(-2147483647 - 1)", "long": "(-9223372036854775807L - 1)"}[T]
        return ["!((%s) == %s && (%s) == -1)" % (a, mn, b)]
    return []


# ---------------------------------------------------------------------------
# stream output (ghost ostream model)
# ---------------------------------------------------------------------------
OS_OPAQUE = [(r"ostream", "struct cxx2c_ostream"), (r"^std::_Setw$", "struct cxx2c_setw"), (r"^std::ios_base$|basic_ios<char", "struct cxx2c_ostream")]
OS_EXTERN = [(r"operator<<.*\(.*ostream.*&, char\)$", "cxx2c_os_char"), (r"operator<<.*\(.*ostream.*&, const char \*\)$", "cxx2c_os_str"),
             (r"ostream<char.*>::operator<<\(float\)$", "cxx2c_os_float"), (r"ostream<char.*>::operator<<\(double\)$", "cxx2c_os_double"),
             (r"ostream<char.*>::operator<<\((int|long|short|unsigned int|unsigned long)\)$", "cxx2c_os_long"),
             (r"^std::setw\(int\)$", "cxx2c_setw_make"), (r"operator<<.*\(.*ostream.*&, std::_Setw\)$", "cxx2c_os_setw"),
             (r"ios_base::flags\(\)", "cxx2c_ios_flags"), (r"ios_base::flags\(std::(_Ios_Fmtflags|ios_base::fmtflags)\)", "cxx2c_ios_setflags"),
             (r"ios_base::setf\(", "cxx2c_ios_setf"), (r"ios_base::precision\(\)", "cxx2c_ios_precision")]
STREAM_QUICK = [("Vec2", "float"), ("Vec3", "float"), ("Vec3", "int"), ("Vec4", "double"), ("Color4", "float"), ("Shear6", "float"), ("Shear6", "double"), ("Quat", "float"),
                ("Matrix22", "float"), ("Matrix33", "double"), ("Matrix44", "float")]
STREAM_ALL = STREAM_QUICK + [("Vec2", "double"), ("Vec2", "int"), ("Vec2", "short"), ("Vec3", "double"), ("Vec3", "short"), ("Vec3", "long"), ("Vec4", "float"), ("Vec4", "int"),
                             ("Quat", "double"), ("Matrix22", "double"), ("Matrix33", "float"), ("Matrix44", "double")]


def stream_units(tier):
    pairs = STREAM_QUICK if tier == "quick" else STREAM_ALL
    hdrs = sorted({HDR[K] for K, T in pairs})
    drv = "".join('#include "%s"\n' % h for h in hdrs) + "#include <iostream>\n#include <cstdint>\nusing namespace IMATH_INTERNAL_NAMESPACE;\n"
    for n, (K, T) in enumerate(pairs):
        drv += "void use_s%d (std::ostream &s, %s<%s> &v) { s << v; }\n" % (n, K, T)
    wanted = ["operator<<<%s>(std::ostream &, const %s<%s> &)" % (T, K, T) for K, T in pairs]
    ex = extract.run_extraction("c04_stream_" + tier, drv, wanted, outdir=GEN, diff=False, opaque_patterns=OS_OPAQUE, extern_patterns=OS_EXTERN)
    EXTRACTION[ex.name] = {"functions": len(ex.order), "differential": "not run: the real functions write to a std::ostream; the ghost log replaces it"}
    L = ['/* GENERATED by vf/props/c04.py: stream-output contracts over the ghost ostream log */', '#include "vf.h"', '#include "%s"' % os.path.basename(ex.c_path), '#include "c04_stream.h"', ""]
    us = []
    for K, T in pairs:
        f = ex.names["operator<<<%s>(std::ostream &, const %s<%s> &)" % (T, K, T)]
        S = "struct " + cid(K, T)
        slots = SLOTS[K]
        ct = CT[T]
        tag = "os_" + cid(K, T)
        ncomp = len(slots)
        mat = K.startswith("Matrix")
        rowlen = int(K[-1]) if mat else ncomp
        kind = {"float": "CXX2C_TOK_F32", "double": "CXX2C_TOK_F64"}.get(T, "CXX2C_TOK_INT")
        raw = {"float": "vf_f2u (%s)", "double": "vf_d2u (%s)"}.get(T, "(unsigned long) (long) (%s)")
        L.append("static inline _Bool spec_%s (struct cxx2c_ostream os, %s v)\n{\n    unsigned long e[%d] = { %s };\n    return spec_stream_ok (&os, %s, e, %d, %d, %d);\n}" % (
            tag, S, ncomp, ", ".join(raw % ("v." + sl) for sl in slots), kind, ncomp, rowlen, 0 if mat else 1))
        L.append("struct cxx2c_ostream *%s (struct cxx2c_ostream *s, %s *v)" % (f, S))
        L.append("    __CPROVER_requires (__CPROVER_rw_ok (s, sizeof (*s)) && __CPROVER_r_ok (v, sizeof (*v)) && s->n == 0)")
        L.append("    __CPROVER_assigns (*s)")
        L.append("    __CPROVER_ensures (spec_%s (*s, *v))" % tag)
        L.append("    __CPROVER_ensures (__CPROVER_return_value == s);")
        L.append("void h_%s (void)\n{" % tag)
        for i, sl in enumerate(slots):
            L.append("    VF_IN (%s, in_a%d);" % (ct, i))
        L.append("    %s a; memset (&a, 0, sizeof a);" % S)
        for i, sl in enumerate(slots):
            L.append("    a.%s = in_a%d;" % (sl, i))
        L.append("    struct cxx2c_ostream os; memset (&os, 0, sizeof os);")
        L.append("    struct cxx2c_ostream *r = %s (&os, &a); (void) r;" % f)
        L.append("    VF_END ();\n}")
        for flagcase in ((("fixed", 4), ("scientific", 0)) if mat else ((None, None),)):
          us.append(Unit("c04.stream.%s%s" % (cid(K, T), ("." + flagcase[0]) if flagcase[0] else ""), None, "h_" + tag, enforce=[f], backend="sat", mode="BIT", includes=[GEN],
                       defines=["CXX2C_IOS_FLAGS_VALUE=%d" % flagcase[1]] if mat else [], functions=["operator<<(std::ostream &, const %s<%s> &)" % (K, T)],
                       clause="operator<< for %s<%s>: '(' components in declaration order, separated by white space (%s), ')' - one token per component" % (K, T, "one row per line" if mat else "single spaces"),
                       no_checks=True, cbmc_flags=["--unwind", "100", "--no-signed-overflow-check", "--object-bits", "10", "--max-field-sensitivity-array-size", "128"], timeout=300,
                       replay={"src": os.path.join(VERIF, "harness", "c04_stream_replay.cpp"), "lang": "c++",
                               "flags": ["-DVF_TYPE=%s<%s>" % (K, T), "-DVF_ELEM=%s" % T, "-DVF_N=%d" % ncomp]},
                       assumptions=["std::ostream is a ghost log of insertions (characters, element values, setw); what libstdc++ prints for one element is its 'own printed form' by definition"]))
    path = os.path.join(GEN, "c04_streamh_%s.c" % tier)
    txt = "\n".join(L)
    if not os.path.exists(path) or open(path).read() != txt:
        open(path, "w").write(txt)
    for u in us:
        u.src = path
    return us


# ---------------------------------------------------------------------------
# accessors / raw pointers / conversions (representative instantiations) and static layout facts
# ---------------------------------------------------------------------------
ACC_DRIVER = '''#include "ImathVec.h"
#include "ImathMatrix.h"
#include "ImathColor.h"
#include "ImathShear.h"
#include "ImathQuat.h"
#include <type_traits>
using namespace IMATH_INTERNAL_NAMESPACE;
template class IMATH_INTERNAL_NAMESPACE::Vec2<float>; template class IMATH_INTERNAL_NAMESPACE::Vec3<float>; template class IMATH_INTERNAL_NAMESPACE::Vec4<float>;
template class IMATH_INTERNAL_NAMESPACE::Color4<float>; template class IMATH_INTERNAL_NAMESPACE::Shear6<float>; template class IMATH_INTERNAL_NAMESPACE::Quat<float>;
template class IMATH_INTERNAL_NAMESPACE::Matrix33<float>; template class IMATH_INTERNAL_NAMESPACE::Matrix44<float>;
void use_acc (Vec3<float> &v, Vec3<double> &d, Vec3<int> &i, Matrix33<float> &m, Matrix33<double> &md, double &x)
{ v = Vec3<float> (d); v = Vec3<float> (i); v.setValue (x, x, x); v.getValue (x, x, x); v.setValue (d); v.getValue (d); m = Matrix33<float> (md); m.setValue (md); m.getValue (md); }
// static layout facts (compile-time, checked by clang while the AST is produced and by g++ in the shim build)
#define LAYOUT(K, T, N) static_assert (sizeof (K<T>) == N * sizeof (T) && std::is_standard_layout<K<T>>::value, "contiguous block of exactly N elements");
LAYOUT (Vec2, float, 2) LAYOUT (Vec3, float, 3) LAYOUT (Vec4, float, 4) LAYOUT (Vec2, short, 2) LAYOUT (Vec3, int, 3) LAYOUT (Vec4, double, 4) LAYOUT (Vec3, half, 3)
LAYOUT (Color3, float, 3) LAYOUT (Color4, float, 4) LAYOUT (Color4, unsigned char, 4) LAYOUT (Shear6, float, 6) LAYOUT (Shear6, double, 6) LAYOUT (Quat, float, 4) LAYOUT (Quat, double, 4)
LAYOUT (Matrix22, float, 4) LAYOUT (Matrix33, float, 9) LAYOUT (Matrix44, float, 16) LAYOUT (Matrix22, double, 4) LAYOUT (Matrix33, double, 9) LAYOUT (Matrix44, double, 16)
static_assert (offsetof (Vec4<float>, x) == 0 && offsetof (Vec4<float>, y) == 4 && offsetof (Vec4<float>, z) == 8 && offsetof (Vec4<float>, w) == 12, "declaration order");
static_assert (offsetof (Color4<float>, r) == 0 && offsetof (Color4<float>, g) == 4 && offsetof (Color4<float>, b) == 8 && offsetof (Color4<float>, a) == 12, "declaration order");
static_assert (offsetof (Shear6<float>, xy) == 0 && offsetof (Shear6<float>, xz) == 4 && offsetof (Shear6<float>, yz) == 8 && offsetof (Shear6<float>, yx) == 12 && offsetof (Shear6<float>, zx) == 16 && offsetof (Shear6<float>, zy) == 20, "declaration order");
static_assert (offsetof (Quat<float>, r) == 0 && offsetof (Quat<float>, v) == 4, "declaration order");
'''
ACC = {
    "v2_idx": "Vec2<float>::operator[](int)", "v2_idxc": "Vec2<float>::operator[](int) const", "v3_idx": "Vec3<float>::operator[](int)", "v3_idxc": "Vec3<float>::operator[](int) const",
    "v4_idx": "Vec4<float>::operator[](int)", "v4_idxc": "Vec4<float>::operator[](int) const", "c4_idx": "Color4<float>::operator[](int)", "c4_idxc": "Color4<float>::operator[](int) const",
    "s6_idx": "Shear6<float>::operator[](int)", "s6_idxc": "Shear6<float>::operator[](int) const", "q_idx": "Quat<float>::operator[](int)", "q_idxc": "Quat<float>::operator[](int) const",
    "v2_gv": "Vec2<float>::getValue()", "v3_gv": "Vec3<float>::getValue()", "v4_gv": "Vec4<float>::getValue()", "m33_gv": "Matrix33<float>::getValue()", "m44_gv": "Matrix44<float>::getValue()",
    "m33_idx": "Matrix33<float>::operator[](int)", "m44_idx": "Matrix44<float>::operator[](int)",
    "v3_from_d": "Vec3<float>::Vec3(const Vec3<double> &)", "v3_from_i": "Vec3<float>::Vec3(const Vec3<int> &)", "v3_set3": "Vec3<float>::setValue(double, double, double)",
    "v3_setv": "Vec3<float>::setValue(const Vec3<double> &)", "v3_get3": "Vec3<float>::getValue(double &, double &, double &) const", "v3_getv": "Vec3<float>::getValue(Vec3<double> &) const",
    "m33_from_d": "Matrix33<float>::Matrix33(const Matrix33<double> &)", "m33_setv": "Matrix33<float>::setValue(const Matrix33<double> &)", "m33_getv": "Matrix33<float>::getValue(Matrix33<double> &) const",
}


def acc_units(tier):
    ex = extract.run_extraction("c04_accx", ACC_DRIVER, sorted(set(ACC.values())), outdir=GEN)
    txt = "\n".join("#define F_%s %s" % (a, ex.names[sp]) for a, sp in ACC.items()) + "\n"
    p = os.path.join(GEN, "c04_acc_names.h")
    if not os.path.exists(p) or open(p).read() != txt:
        open(p, "w").write(txt)
    EXTRACTION[ex.name] = {"functions": len(ex.order), "differential": {k: ex.diff.get(k) for k in ("tested", "cases")}, "skipped": ex.diff.get("skipped", []),
                           "static_layout_facts": "21 sizeof/standard-layout and 4 offsetof static_asserts in the driver compile under clang (extraction) and g++ (shim build)"}
    H = os.path.join(VERIF, "harness", "c04_acc.c")
    rp = {"src": H, "lang": "c", "cxx": [ex.shim_cpp], "includes": [GEN] + ex.includes}
    return [Unit("c04.acc." + a, H, "h_" + a, enforce=[ex.names[sp]], includes=[GEN], backend="cvc5", mode="IEEE", functions=[sp], no_checks=True, timeout=300, replay=rp,
                 cbmc_flags=["--unwind", "10", "--no-signed-overflow-check", "--object-bits", "10"],
                 clause="%s: addresses / converts exactly the N elements of one contiguous block in declaration order" % sp) for a, sp in ACC.items()]


FAMILIES = {
    "vec": ["Vec2", "Vec3", "Vec4"],
    "col": ["Color3", "Color4", "Shear6", "Quat"],
    "mat": ["Matrix22", "Matrix33", "Matrix44"],
}
ELT = {
    "Vec2": ["short", "int", "long", "float", "double"], "Vec3": ["short", "int", "long", "float", "double"],
    "Vec4": ["short", "int", "long", "float", "double"], "Color3": ["float", "unsigned char"],
    "Color4": ["float", "unsigned char"], "Shear6": ["float", "double"], "Quat": ["float", "double"],
    "Matrix22": ["float", "double"], "Matrix33": ["float", "double"], "Matrix44": ["float", "double"],
}
QUICK = [("Vec3", "float"), ("Vec3", "int"), ("Vec4", "double"), ("Vec2", "short"), ("Shear6", "float"),
         ("Color4", "float"), ("Color3", "float"), ("Quat", "float"), ("Matrix33", "double"), ("Matrix44", "float")]

EXTRACTION = {}


def plan(tier):
    if tier == "quick":
        return QUICK
    out = []
    for fam, Ks in FAMILIES.items():
        for K in Ks:
            for T in ELT[K]:
                out.append((K, T))
    return out


def units(tier):
    os.makedirs(GEN, exist_ok=True)
    pairs = plan(tier)
    us = []
    # one extraction per family
    for fam, Ks in FAMILIES.items():
        fp = [(K, T) for (K, T) in pairs if K in Ks]
        if not fp:
            continue
        wanted = []
        for K, T in fp:
            for spec_fmt, kind, op in ops_for(K):
                wanted.append(with_alt(spec_fmt, kind).replace("{T}", T))
        for T in sorted({T for K, T in fp if any(k in ("eqabs", "eqrel") for _, k, _ in ops_for(K))}):
            wanted.append("equalWithAbsError<%s>(%s, %s, %s)" % (T, T, T, T))
            wanted.append("equalWithRelError<%s>(%s, %s, %s)" % (T, T, T, T))
        name = "c04_%s_%s" % (fam, tier)
        ex = extract.run_extraction(name, driver_for(fp), wanted, outdir=GEN)
        EXTRACTION[name] = {"functions": len(ex.order), "differential": {k: ex.diff.get(k) for k in ("tested", "cases")},
                            "skipped": ex.diff.get("skipped", []), "sha": {k: v["sha"] for k, v in list(ex.info.items())[:400]}}
        for K, T in fp:
            txt, ulist = gen_unit_file(K, T, ex, wanted, tier)
            path = os.path.join(GEN, "c04_%s.c" % cid(K, T))
            if not os.path.exists(path) or open(path).read() != txt:
                open(path, "w").write(txt)
            for d in ulist:
                fp_mode = T in FP
                variants = [(a, -1) for a in ((0, 1) if d["two"] else (0,))]
                if d["sref"]:
                    variants += [(0, k) for k in sorted({0, d["nslots"] // 2, d["nslots"] - 1})]
                for alias, sal in variants:
                    us.append(Unit("c04." + d["tag"] + (".alias" if alias else "") + (".salias%d" % sal if sal >= 0 else ""), path, "h_" + d["tag"], enforce=[d["f"]],
                                   backend="cvc5", mode="IEEE" if fp_mode else "BIT",
                                   includes=[GEN], functions=[d["spec"]], defines=["VF_ALIAS=%d" % alias, "VF_SALIAS=%d" % sal],
                                   clause="%s: every slot equals the scalar operation on corresponding slots; frame%s" % (d["spec"], " (operands aliased)" if alias else ""),
                                   cbmc_flags=["--unwind", "8", "--unwinding-assertions"],
                                   no_checks=True, timeout=300,
                                   replay={"src": path, "lang": "c", "cxx": [ex.shim_cpp], "includes": [GEN] + ex.includes}))
    us_stream = stream_units(tier) + acc_units(tier)
    for u in us:
        # cbmc 6 enables its standard checks by default; signed overflow in + - * and negation is
        # outside the property (proved under wrap-around semantics, see ASSUMPTIONS)
        u.cbmc_flags += ["--no-signed-overflow-check"]
    return us + us_stream


NOT_COVERED = [
    "operator<<: the token STRUCTURE is decided on a ghost stream log; the characters libstdc++ produces for one element (float formatting) are outside the verifier",
    "half element type (arithmetic through half operators: see C03)",
    "operator[], getValue/setValue, converting constructors are under contract for representative instantiations (Vec2/3/4, Color4, Shear6, Quat, Matrix33/44 at float; float<-double, float<-int), the foreign-type interop constructors / assignments (has_xy ... traits) are not",
]
ASSUMPTIONS = [
    "cxx2c extraction rules (DESIGN 3.2); extracted C differentially validated against the g++ build natively",
    "integer + - * and negation proved under two's-complement wrap-around (a superset of the defined-behaviour domain); integer division by zero and MIN/-1 excluded by requires",
    "NaN payloads outside the model: float equality is 'same value and sign, or both NaN'",
]
