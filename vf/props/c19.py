"""C19: PyImath FixedArray - indexing and read-only protection (boost-free bodies)."""
import os
from ..core import Unit, VERIF, REPO, BUILD
from .. import extract

GEN = os.path.join(BUILD, "C19")
H = os.path.join(VERIF, "harness", "c19.c")
DRIVER = '''#include "PyImathFixedArray.h"
using namespace PyImath;
template class PyImath::FixedArray<int>;
void use19 (FixedArray<int> &a, const FixedArray<int> &c, size_t i)
{
    a.match_dimension (c); a.match_dimension (c, false);
    FixedArray<int>::ReadOnlyDirectAccess r1 (c); FixedArray<int>::WritableDirectAccess w1 (a);
    FixedArray<int>::ReadOnlyMaskedAccess r2 (c); FixedArray<int>::WritableMaskedAccess w2 (a);
    (void) r1[i]; w1[i] = 1; (void) r2[i]; w2[i] = 2;
}
'''
F = "FixedArray<int>"
ALIASES = {
    "canonical_index": F + "::canonical_index(Py_ssize_t) const", "index": F + "::operator[](size_t)", "index_c": F + "::operator[](size_t) const",
    "direct_index": F + "::direct_index(size_t)", "makeReadOnly": F + "::makeReadOnly()",
    "match_dimension": F + "::match_dimension(const FixedArray<int> &, bool) const",
    "rda_ctor": F + "::ReadOnlyDirectAccess::ReadOnlyDirectAccess(const FixedArray<int> &)",
    "wda_ctor": F + "::WritableDirectAccess::WritableDirectAccess(FixedArray<int> &)",
    "rma_ctor": F + "::ReadOnlyMaskedAccess::ReadOnlyMaskedAccess(const FixedArray<int> &)",
    "wma_ctor": F + "::WritableMaskedAccess::WritableMaskedAccess(FixedArray<int> &)",
    "rda_index": F + "::ReadOnlyDirectAccess::operator[](size_t) const", "wda_index": F + "::WritableDirectAccess::operator[](size_t)",
}
OPAQUE = {"boost::shared_array<unsigned long>": "struct cxx2c_shared_array_ulong", "boost::any": "struct cxx2c_any"}
EXTERN = {"boost::shared_array<unsigned long>::operator[]": "cxx2c_sa_index", "boost::shared_array<unsigned long>::get": "cxx2c_sa_get",
          "boost::python::throw_error_already_set": "cxx2c_throw_error_already_set", "PyErr_SetString": "cxx2c_PyErr_SetString",
          "__assert_fail": "cxx2c_assert_fail"}
EXTS = {"PyExc_IndexError": "CXX2C_PyExc_IndexError", "PyExc_TypeError": "CXX2C_PyExc_TypeError"}
EXTRACTION = {}


def units(tier):
    ex = extract.run_extraction("c19x", DRIVER, sorted(set(ALIASES.values())), outdir=GEN,
                                extra_includes=[os.path.join(REPO, "src/python/PyImath"), "/usr/include/python3.11"],
                                opaque=OPAQUE, extern_funcs=EXTERN, externals=EXTS, diff=False)
    os.makedirs(GEN, exist_ok=True)
    txt = "\n".join("#define F_%s %s" % (a, ex.names[s]) for a, s in ALIASES.items()) + "\n"
    p = os.path.join(GEN, "c19_names.h")
    if not os.path.exists(p) or open(p).read() != txt:
        open(p, "w").write(txt)
    EXTRACTION["c19x"] = {"functions": len(ex.order), "differential": "not run: the real functions need libpython/boost.python to link; extraction rules as for the core library"}
    us = []
    N = lambda a: ex.names[ALIASES[a]]

    def U(name, entry, enforce=(), replace=(), clause="", fns=(), bounded=None):
        rp = None
        if name in ("rda_ctor", "wda_ctor", "rma_ctor", "wma_ctor"):
            rp = {"src": os.path.join(VERIF, "harness", "c19_replay.cpp"), "lang": "c++", "libs": ["-lboost_python311", "-lpython3.11"],
                  "includes": [os.path.join(REPO, "src/python/PyImath"), "/usr/include/python3.11"], "flags": ['-DVF_WHICH="%s"' % name]}
        us.append(Unit("c19." + name, H, entry, enforce=list(enforce), replace=list(replace), includes=[GEN], backend="cvc5", mode="BIT",
                       functions=list(fns), clause=clause, no_checks=True, timeout=600, bounded=bounded, replay=rp,
                       cbmc_flags=["--unwind", "10", "--no-signed-overflow-check", "--object-bits", "10"]))
    U("canonical_index", "h_canonical_index", [N("canonical_index")], fns=[ALIASES["canonical_index"]],
      clause="canonical_index(i) is the Python index: raises IndexError exactly for i outside [-len, len), otherwise i or i+len, below len")
    U("index", "h_index", [N("index")], fns=[ALIASES["index"]], clause="non-const operator[]: raises exactly for read-only arrays; element address through the mask; in bounds under the view invariant (8-element buffers)")
    U("index_c", "h_index_c", [N("index_c")], fns=[ALIASES["index_c"]], clause="const operator[]: element address through the mask; in bounds under the view invariant")
    U("direct_index", "h_direct_index", [N("direct_index")], fns=[ALIASES["direct_index"]], clause="direct_index raises exactly for read-only arrays")
    U("makeReadOnly", "h_makeReadOnly", [N("makeReadOnly")], fns=[ALIASES["makeReadOnly"]], clause="makeReadOnly clears the writable flag and nothing else")
    U("match_dimension", "h_match_dimension", [N("match_dimension")], fns=[ALIASES["match_dimension"]], clause="match_dimension raises invalid_argument exactly on mismatched lengths (strict / masked rules)")
    for k, what in (("rda_ctor", "ReadOnlyDirectAccess"), ("wda_ctor", "WritableDirectAccess"), ("rma_ctor", "ReadOnlyMaskedAccess"), ("wma_ctor", "WritableMaskedAccess")):
        U(k, "h_" + k, [N(k)], fns=[ALIASES[k]], clause="%s constructor: refused exactly when the array's masked / writable state does not allow it" % what)
    us.extend(slice_units(tier))
    U("lemma.readonly", "h_lemma_readonly", replace=[N("wda_ctor"), N("wma_ctor"), N("index"), N("direct_index")],
      fns=[ALIASES[k] for k in ("wda_ctor", "wma_ctor", "index", "direct_index")],
      clause="lemma from the contracts: no writable accessor or element reference can be obtained from a read-only array")
    return us


SDRIVER = '''#include "PyImathFixedArray.h"
using namespace PyImath;
void use19s (FixedArray<int> &a, PyObject *o, const int &v) { FixedArray<int> f = a.getslice (o); a.setitem_scalar (o, v); }
'''
SALIASES = {"getslice": F + "::getslice(::PyObject *) const", "setitem_scalar": F + "::setitem_scalar(PyObject *, const int &)",
            "extract_slice_indices": F + "::extract_slice_indices(PyObject *, size_t &, size_t &, Py_ssize_t &, size_t &) const"}


def slice_units(tier):
    ef = dict(EXTERN)
    ef.update({"Py_IS_TYPE": "cxx2c_Py_IS_TYPE", "Py_TYPE": "cxx2c_Py_TYPE", "PyType_HasFeature": "cxx2c_PyType_HasFeature", "PyLong_AsSsize_t": "cxx2c_PyLong_AsSsize_t",
               "PySlice_Unpack": "cxx2c_PySlice_Unpack", "PySlice_AdjustIndices": "cxx2c_PySlice_AdjustIndices"})
    exts = dict(EXTS)
    exts["PySlice_Type"] = "CXX2C_PySlice_Type"
    op = dict(OPAQUE)
    op.update({"_object": "void", "PyObject": "void", "::PyObject": "void", "_typeobject": "void", "PyTypeObject": "void"})
    ex = extract.run_extraction("c19sx", SDRIVER, sorted(set(SALIASES.values())), outdir=GEN, extra_includes=[os.path.join(REPO, "src/python/PyImath"), "/usr/include/python3.11"],
                                opaque=op, extern_funcs=ef, externals=exts, diff=False, extern_patterns=[(r"^FixedArray<int>::FixedArray\((long|Py_ssize_t)\)$", "cxx2c_fa_ctor_len")])
    txt = "\n".join("#define F_%s %s" % (a, ex.names[s]) for a, s in SALIASES.items()) + "\n"
    p = os.path.join(GEN, "c19s_names.h")
    if not os.path.exists(p) or open(p).read() != txt:
        open(p, "w").write(txt)
    EXTRACTION["c19sx"] = {"functions": len(ex.order), "differential": "not run (libpython / boost.python)"}
    HS = os.path.join(VERIF, "harness", "c19_slice.c")
    nb = 8 if tier == "thorough" else 6
    B = "array length <= %d (harness buffers), stride 1 or 2; element loops unwound completely for that size" % nb
    asm = ["assumed CPython interface: PySlice_Check / PyLong_Check as ghost flags, PySlice_Unpack yields arbitrary (start, stop, step != 0) or fails, PySlice_AdjustIndices = CPython 3.11 reference code, "
           "PyLong_AsSsize_t arbitrary; FixedArray(length) modelled as a fresh zero-filled writable unmasked array"]
    return [Unit("c19.slice." + n, HS, "h_" + n, includes=[GEN], backend=os.environ.get("C19_BE", "kissat"), mode="BIT", functions=[SALIASES[n], SALIASES["extract_slice_indices"]], clause=c, no_checks=True,
                 timeout=900 if nb == 6 else 5400, bounded=B, defines=["NB=%d" % nb], cbmc_flags=["--unwind", str(2 * nb + 2), "--no-signed-overflow-check", "--object-bits", "10"], assumptions=asm,
                 replay={"src": os.path.join(VERIF, "harness", "c19_slice_replay.cpp"), "lang": "c++", "libs": ["-lboost_python311", "-lpython3.11"],
                         "includes": [os.path.join(REPO, "src/python/PyImath"), "/usr/include/python3.11"], "flags": ['-DVF_WHICH="%s"' % n]})
            for n, c in (("getslice", "getslice(slice or int) on plain and masked arrays: raises exactly on a bad index; otherwise a fresh array whose k-th element is element start + k*step of the array (through the mask); source unchanged"),
                         ("setitem_scalar", "setitem_scalar(slice or int, value): raises exactly for read-only arrays or a bad index; stores the value at exactly the selected positions (through the mask)"))]


def extra_coverage(units, tier):
    return {"extraction": EXTRACTION}


NOT_COVERED = [
    "setitem_vector / setitem_*_mask / getslice_mask / masked-reference constructors / ifelse: not under contract (getslice and setitem_scalar are, bounded)",
    "FixedArray2D, FixedMatrix, FixedVArray, StringArray/StringTable, buffer protocol",
    "view lifetimes under any release order (boost.python call policies, reference counts: dropped by the extraction)",
    "everything observable only at the Python level; the PyImath sources are not built by the pinned suite, so no native replay links against them",
]
ASSUMPTIONS = [
    "library models: boost::shared_array<size_t> is a bare pointer (ownership dropped), boost::any opaque, PyErr_SetString/throw_error_already_set are ghost state",
    "element addresses are checked for in-bounds on 8-element harness buffers under the view invariant (memory-safety part bounded by the buffer size; the functional clauses are for all values)",
    "clang AST of PyImathFixedArray.h with the system boost / python3.11 headers",
]
