"""C15 (algebraic clauses only): Plane3, Line3 point forms, project / orthogonal / reflect - RETYPE mode.

RETYPE: the extracted text of the float instantiation is compiled with float := int and the ring runtime
harness/cxx2c_rt_ring.h (division = multiplication by an uninterpreted inverse, sqrt uninterpreted); see DESIGN 10.1."""
import os, re
from ..core import Unit, VERIF, REPO, BUILD, Undecided
from .. import extract

GEN = os.path.join(BUILD, "C15")
H = os.path.join(VERIF, "harness", "c15.c")
DRIVER = '''#include "ImathPlane.h"
#include "ImathLine.h"
#include "ImathVecAlgo.h"
#include "ImathLineAlgo.h"
using namespace IMATH_INTERNAL_NAMESPACE;
void use15 (Plane3<float> &p, Line3<float> &l, Vec3<float> &a, Vec3<float> &b, Vec3<float> &c, float &t, bool &r)
{
    p.set (a, b, c); p.set (a, b); p.set (a, t); t = p.distanceTo (a); a = p.reflectPoint (b); a = p.reflectVector (b);
    r = p.intersect (l, a); r = p.intersectT (l, t); p = -p;
    l.set (a, b); a = l (t); a = l.closestPointTo (b);
    a = project (b, c); a = orthogonal (b, c); a = reflect (b, c); t = a.length ();
    t = l.distanceTo (a); a = closestVertex (a, b, c, l);
}
'''
P, L, V = "Plane3<float>", "Line3<float>", "const Vec3<float> &"
ALIASES = {
    "plane_set3": P + "::set(%s, %s, %s)" % (V, V, V), "plane_setpn": P + "::set(%s, %s)" % (V, V), "plane_setnd": P + "::set(%s, float)" % V,
    "plane_distanceTo": P + "::distanceTo(%s) const" % V, "plane_reflectPoint": P + "::reflectPoint(%s) const" % V, "plane_reflectVector": P + "::reflectVector(%s) const" % V,
    "plane_intersect": P + "::intersect(const Line3<float> &, Vec3<float> &) const", "plane_intersectT": P + "::intersectT(const Line3<float> &, float &) const",
    "plane_neg": "operator-<float>(const Plane3<float> &)",
    "line_set": L + "::set(%s, %s)" % (V, V), "line_at": L + "::operator()(float) const", "line_closestPointTo": L + "::closestPointTo(%s) const" % V,
    "project": "project<Vec3<float>,0>(%s, %s)" % (V, V), "orthogonal": "orthogonal<Vec3<float>,0>(%s, %s)" % (V, V), "reflect": "reflect<Vec3<float>,0>(%s, %s)" % (V, V),
    "length": "Vec3<float>::length() const",
    "line_distanceTo": L + "::distanceTo(%s) const" % V,
    "closestVertex": "closestVertex<float>(%s, %s, %s, const Line3<float> &)" % (V, V, V),
}
LIMITS = [(r"^std::numeric_limits<float>::%s\(\)$" % k, "cxx2c_limit_float_" + k) for k in ("min", "max", "lowest", "epsilon")]
EXTRACTION = {}
UNITS = [("plane_set3", ["plane_set3", "plane_distanceTo"], "Plane3(p0,p1,p2) has zero signed distance to its three defining points"),
         ("plane_setpn", ["plane_setpn", "plane_distanceTo"], "Plane3(point, normal): zero signed distance to the point, normal parallel to the given one"),
         ("plane_setnd", ["plane_setnd"], "Plane3(normal, distance): distance stored, normal parallel to the given one"),
         ("plane_reflectPoint", ["plane_reflectPoint", "plane_distanceTo"], "reflectPoint negates the signed distance and is an involution (homogeneous in N = n.n)"),
         ("plane_reflectVector", ["plane_reflectVector"], "reflectVector(v) == 2 (n.v) n - v; an involution (homogeneous in N)"),
         ("plane_intersect", ["plane_intersect", "plane_intersectT", "line_at", "plane_distanceTo"], "line-plane intersection: false exactly for parallel lines; the point is line(t), lies on the line, and on the plane up to the residual (1 - d inv(d))"),
         ("plane_neg", ["plane_neg"], "-plane negates normal and distance"),
         ("line_set", ["line_set"], "Line3(p0,p1) starts at p0, direction parallel to p1 - p0"),
         ("line_closestPoint", ["line_at", "line_closestPointTo"], "line(t) == pos + t dir; closestPointTo(point) lies on the line and the connecting segment is perpendicular to the direction (homogeneous in N = dir.dir)"),
         ("line_distanceTo", ["line_distanceTo", "line_closestPointTo", "length"], "distanceTo(point) == |closestPointTo(point) - point| (the reported distance is the length of the connecting segment)"),
         ("closestVertex", ["closestVertex", "line_closestPointTo"], "closestVertex(v0,v1,v2,line) returns one of the three vertices, and no other vertex has a smaller squared distance to its closest point on the line (tie-breaking is not constrained)"),
         ("vecalgo", ["project", "orthogonal", "reflect", "length"], "project(s,t) parallel to s; orthogonal + project == t; orthogonal perpendicular to s up to the residual; reflect(s,t) == 2 project(t,s) - s")]


def literal_check(c_path):
    """RETYPE is only meaningful when every literal of the element type is an integer (the ring has no 1/2)"""
    txt = open(c_path).read()
    txt = re.sub(r"/\*.*?\*/", "", txt, flags=re.S)
    txt = re.sub(r'"(\\.|[^"\\])*"', '""', txt)
    bad = []
    for m in re.finditer(r"(?<![\w.])(\d+\.\d*(?:[eE][-+]?\d+)?|\d+[eE][-+]?\d+|\.\d+(?:[eE][-+]?\d+)?)[fFlL]?", txt):
        v = float(m.group(1))
        if v != int(v) or abs(v) >= 2 ** 31:
            bad.append(m.group(0))
    if bad:
        raise Undecided("c15 RETYPE: non-integer or huge floating literal(s) in the extracted functions: %s" % sorted(set(bad))[:5])


def units(tier):
    ex = extract.run_extraction("c15x", DRIVER, sorted(set(ALIASES.values())), outdir=GEN, extern_patterns=LIMITS)
    txt = "\n".join("#define F_%s %s" % (a, ex.names[s]) for a, s in ALIASES.items()) + "\n"
    p = os.path.join(GEN, "c15_names.h")
    if not os.path.exists(p) or open(p).read() != txt:
        open(p, "w").write(txt)
    literal_check(ex.c_path)
    EXTRACTION["c15x"] = {"functions": len(ex.order), "differential": {k: ex.diff.get(k) for k in ("tested", "cases")}, "skipped": ex.diff.get("skipped", []),
                          "retype": "float := int, double := int; literals checked integer-valued on every run"}
    rp = {"src": H, "lang": "c", "cxx": [ex.shim_cpp], "includes": [GEN] + ex.includes}
    asm = ["RETYPE: the float instantiation's extracted text evaluated over Z/2^32; a/b = a*inv(b) with inv uninterpreted, sqrt uninterpreted, numeric_limits constants arbitrary; "
           "an identity proved this way is an identity of the rational expressions the code computes on every path, hence holds in exact real arithmetic; "
           "rounding error of the float evaluation is NOT covered (the property's 'to within rounding')",
           "paths: comparisons are evaluated on ring values; the identities are proved for every path the extracted text has"]
    return [Unit("c15." + n, H, "h_" + n, includes=[GEN], backend="z3som", mode="RING", functions=[ALIASES[f] for f in fns], clause=c, no_checks=True,
                 cbmc_flags=["--unwind", "6", "--no-signed-overflow-check", "--no-div-by-zero-check", "--object-bits", "10"], timeout=600, replay=rp, assumptions=asm)
            for n, fns, c in UNITS]


def extra_coverage(units, tier):
    return {"extraction": EXTRACTION}


NOT_COVERED = [
    "Line3::closestPointTo(Line3) / distanceTo(Line3) / closestPoints: need unit directions and d*inv(d) = 1 simultaneously - no polynomial form found; "
    "NOTE Line3::distanceTo(Line3) returns |(d1 x d2).(p2 - p1)| without dividing by |d1 x d2| (0.7071 for two skew lines at distance 1, findings/C15_line_distanceTo_line_demo.cpp): "
    "seen while reading, outside the reach of these obligations, not repaired",
    "unit normal of a constructed plane (needs sqrt(x)^2 = x), plane x matrix, Sphere3 (quadratic roots, circumscribe: 0.5 literal), triangle intersect / barycentrics, rotatePoint",
    "every 'to within rounding' clause: the identities are exact-arithmetic identities",
]
ASSUMPTIONS = ["RETYPE mode (harness/cxx2c_rt_ring.h)", "cxx2c extraction rules; differential validation of the float instantiation natively"]
