"""C20: vectorised PyImath kernels equal element-wise ops under any partition (frame/partition clause)."""
import os
from ..core import Unit, VERIF, REPO, BUILD
from .. import extract
from . import c19

GEN = os.path.join(BUILD, "C20")
H = os.path.join(VERIF, "harness", "c20.c")
DRIVER = '''#include "PyImathFixedArray.h"
#include "PyImathAutovectorize.h"
using namespace PyImath;
struct VfOp2 { static int apply (const int &a, const int &b); };   // declared only: an arbitrary pure element operation
struct VfOp1 { static int apply (const int &a); };
struct VfVOp { static void apply (int &a, const int &b); };         // in-place element operation (+=, -=, ...)
typedef FixedArray<int> FA;
typedef detail::VectorizedOperation2<VfOp2, FA::WritableDirectAccess, FA::ReadOnlyDirectAccess, FA::ReadOnlyDirectAccess> K2dd;
typedef detail::VectorizedOperation2<VfOp2, FA::WritableDirectAccess, FA::ReadOnlyMaskedAccess, FA::ReadOnlyDirectAccess> K2md;
typedef detail::VectorizedOperation1<VfOp1, FA::WritableMaskedAccess, FA::ReadOnlyDirectAccess> K1m;
typedef detail::VectorizedVoidOperation1<VfVOp, FA::WritableDirectAccess, FA::ReadOnlyDirectAccess> KV1;
typedef detail::VectorizedMaskedVoidOperation1<VfVOp, FA::WritableMaskedAccess, FA::ReadOnlyDirectAccess, FA &> KMV1;
void use20 (K2dd &a, K2md &b, K1m &c, KV1 &d, KMV1 &f, size_t s, size_t e) { a.execute (s, e); b.execute (s, e); c.execute (s, e); d.execute (s, e); f.execute (s, e); }
'''
A = "FixedArray<int>::"
K2DD = "detail::VectorizedOperation2<VfOp2,%sWritableDirectAccess,%sReadOnlyDirectAccess,%sReadOnlyDirectAccess>" % (A, A, A)
K2MD = "detail::VectorizedOperation2<VfOp2,%sWritableDirectAccess,%sReadOnlyMaskedAccess,%sReadOnlyDirectAccess>" % (A, A, A)
K1M = "detail::VectorizedOperation1<VfOp1,%sWritableMaskedAccess,%sReadOnlyDirectAccess>" % (A, A)
KV1 = "detail::VectorizedVoidOperation1<VfVOp,%sWritableDirectAccess,%sReadOnlyDirectAccess>" % (A, A)
KMV1 = "detail::VectorizedMaskedVoidOperation1<VfVOp,%sWritableMaskedAccess,%sReadOnlyDirectAccess,FixedArray<int> &>" % (A, A)
ALIASES = {"kv1_execute": KV1 + "::execute(size_t, size_t)", "kmv1_execute": KMV1 + "::execute(size_t, size_t)", "k2dd_execute": K2DD + "::execute(size_t, size_t)", "k2md_execute": K2MD + "::execute(size_t, size_t)", "k1m_execute": K1M + "::execute(size_t, size_t)",
           "match_lengths": "detail::match_lengths(const std::pair<size_t, bool> &, const std::pair<size_t, bool> &)"}
EXTRACTION = {}


def units(tier):
    ef = dict(c19.EXTERN)
    ef.update({"VfOp2::apply": "cxx2c_vfop2", "VfOp1::apply": "cxx2c_vfop1", "VfVOp::apply": "cxx2c_vfvop"})
    ex = extract.run_extraction("c20x", DRIVER, sorted(set(ALIASES.values())), outdir=GEN,
                                extra_includes=[os.path.join(REPO, "src/python/PyImath"), "/usr/include/python3.11"],
                                opaque=c19.OPAQUE, extern_funcs=ef, externals=c19.EXTS, diff=False)
    from ..cxx2c import cident
    lines = ["#define F_%s %s" % (a, ex.names[s]) for a, s in ALIASES.items()]
    lines += ["#define K2dd %s" % cident(K2DD), "#define K2md %s" % cident(K2MD), "#define K1m %s" % cident(K1M), "#define KV1 %s" % cident(KV1), "#define KMV1 %s" % cident(KMV1)]
    p = os.path.join(GEN, "c20_names.h")
    txt = "\n".join(lines) + "\n"
    if not os.path.exists(p) or open(p).read() != txt:
        open(p, "w").write(txt)
    # loop contract inserted mechanically into the single for-loop of the direct kernel (must-fire)
    import re
    from ..core import Undecided
    src = open(ex.c_path).read()
    fn = ex.names[ALIASES["k2dd_execute"]]
    i = src.find("void %s(" % fn)
    j = src.find("\n}\n", i)
    body = src[i:j]
    if i < 0 or body.count("for (; (i < end); (++i))") != 1:
        raise Undecided("extraction: the kernel's execute() no longer has the single loop 'for (i = start; i < end; ++i)'")
    inj = ("for (; (i < end); (++i))\n"
           "        __CPROVER_assigns (i, __CPROVER_object_whole (this_->retAccess._ptr))\n"
           "        __CPROVER_loop_invariant (start <= i && i <= end)\n"
           "        __CPROVER_loop_invariant (!(vf_gk >= start && vf_gk < i) || this_->retAccess._ptr[vf_gk] == vf_ge)\n"
           "        __CPROVER_loop_invariant ((vf_gk >= start && vf_gk < i) || this_->retAccess._ptr[vf_gk] == __CPROVER_loop_entry (this_->retAccess._ptr[vf_gk]))\n"
           "        __CPROVER_decreases (end - i)")
    lc = src[:i] + body.replace("for (; (i < end); (++i))", inj) + src[j:]
    lp = os.path.join(GEN, "c20x_lc.c")
    if not os.path.exists(lp) or open(lp).read() != lc:
        open(lp, "w").write(lc)
    EXTRACTION["c20x"] = {"functions": len(ex.order), "differential": "not run (boost.python link)"}
    PY = os.path.join(REPO, "src/python/PyImath")

    def RP(which, nb):
        return {"src": os.path.join(VERIF, "harness", "c20_replay.cpp"), "lang": "c++", "libs": ["-lboost_python311", "-lpython3.11"],
                "cxx": [os.path.join(PY, f) for f in ("PyImathTask.cpp", "PyImathUtil.cpp", "PyImathFixedArray.cpp")],
                "includes": [PY, os.path.join(REPO, "src/Imath"), "/usr/include/python3.11"], "flags": ['-DVF_WHICH="%s"' % which, "-DVF_NB=%d" % nb]}
    B = "array length <= 8 (harness buffers); the loop is unwound 9 times with unwinding assertions, complete for that length"
    us = [
        Unit("c20.match_lengths", H, "h_match_lengths", enforce=[ex.names[ALIASES["match_lengths"]]], includes=[GEN], backend="cvc5", functions=[ALIASES["match_lengths"]], no_checks=True,
             cbmc_flags=["--unwind", "10", "--no-signed-overflow-check"], clause="match_lengths raises invalid_argument exactly for two vector arguments of different length"),
    ]
    for k, what in (("k2dd", "VectorizedOperation2, direct result and arguments"), ("k2md", "VectorizedOperation2, first argument masked"), ("k1m", "VectorizedOperation1, masked result")):
        us.append(Unit("c20." + k, H, "h_" + k, includes=[GEN], backend="cvc5", mode="ABS", functions=[ALIASES[k + "_execute"]], no_checks=True, timeout=900,
                       bounded=B if k != "k1m" else B.replace("<= 8", "<= 4"), defines=["NB=4"] if k == "k1m" else [], replay=RP(k, 4 if k == "k1m" else 8),
                       cbmc_flags=["--unwind", "10", "--no-signed-overflow-check", "--object-bits", "10"],
                       clause="%s: execute(start,end) writes exactly the selected result positions with apply of the corresponding arguments; frame" % what))
    for k, what, nb in (("kv1", "VectorizedVoidOperation1 (in-place op, direct accessors)", 8), ("kmv1", "VectorizedMaskedVoidOperation1 (in-place op on a masked reference, argument of the unmasked length)", 4)):
        us.append(Unit("c20." + k, H, "h_" + k, includes=[GEN], backend="cvc5", mode="ABS", functions=[ALIASES[k + "_execute"]], no_checks=True, timeout=900,
                       bounded=B.replace("<= 8", "<= %d" % nb), defines=["NB=%d" % nb], replay=RP(k, nb), cbmc_flags=["--unwind", "10", "--no-signed-overflow-check", "--object-bits", "10"],
                       clause="%s: execute(start,end) updates exactly the selected positions with apply(self, matching argument element); frame" % what))
    us.append(Unit("c20.k2dd.loopcontract", H, "h_k2dd_loop", includes=[GEN], backend="cvc5", mode="ABS", functions=[ALIASES["k2dd_execute"]], no_checks=True, timeout=900,
                   loop_contracts=True, defines=["VF_LOOPCONTRACT"], replay=RP("k2dd_loop", 8), cbmc_flags=["--no-signed-overflow-check", "--object-bits", "10"],
                   clause="VectorizedOperation2 (direct accessors): loop contract (invariant with ghost index, assigns, decreases) closes the loop for arrays of any length up to 10^6: "
                          "result[k] == apply(args[k]) inside [start,end), untouched outside, arguments never written; termination by the variant end - i",
                   assumptions=["the loop contract text is inserted into the extracted C by c20.py (the repository file is not edited)"]))
    us.append(Unit("c20.partition", H, "h_partition", includes=[GEN], backend="cvc5", mode="ABS", functions=[ALIASES["k2dd_execute"]], no_checks=True, bounded=B, timeout=900, replay=RP("partition", 8),
                   cbmc_flags=["--unwind", "10", "--no-signed-overflow-check", "--object-bits", "10"],
                   clause="partition lemma on the real kernel: two sub-ranges in either order == one call over the union"))
    return us


def extra_coverage(units, tier):
    return {"extraction": EXTRACTION}


NOT_COVERED = [
    "every exported entry point equals the scalar binding (boost.python registration tables), the GIL release, real thread interleavings: concurrency is argued from the disjoint frames only",
    "dispatchTask / WorkerPool hand-off (virtual calls), hand-written Task structs in PyImathQuat/Matrix/Box/Frustum.cpp, the remaining kernel arities",
    "unbounded array length: the kernels are checked on buffers of length <= 8 (bounded, not counted as proved)",
]
ASSUMPTIONS = ["Op::apply is an uninterpreted pure function of its element arguments", "library models as in C19",
               "concurrent execution is not modelled: disjoint write frames and read-only arguments are what is established"]
