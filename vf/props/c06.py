"""C06: matrix inversion - adjugate structure (RING), singular outcome (IEEE), in-place == value (via C07)."""
import os, importlib
from ..core import Unit, VERIF, REPO, BUILD
from .. import extract

GEN = os.path.join(BUILD, "C06")
H = os.path.join(VERIF, "harness", "c06.c")
DRIVER = '''#include "ImathMatrix.h"
using namespace IMATH_INTERNAL_NAMESPACE;
template <class T> void use06 (Matrix22<T> &a, Matrix33<T> &b, Matrix44<T> &c, T &s) { a = a.inverse (); b = b.inverse (); c = c.inverse (); a = a * a; b = b * b; c = c * c; s = a.determinant (); s = b.determinant (); }
template void use06<unsigned> (Matrix22<unsigned> &, Matrix33<unsigned> &, Matrix44<unsigned> &, unsigned &);
template void use06<float> (Matrix22<float> &, Matrix33<float> &, Matrix44<float> &, float &);
'''
U_ = "unsigned int"
ALIASES = {}
for n in (2, 3, 4):
    ALIASES["inverse%d%du" % (n, n)] = "Matrix%d%d<%s>::inverse() const" % (n, n, U_)
    ALIASES["mul%d%du" % (n, n)] = "Matrix%d%d<%s>::operator*(const Matrix%d%d<%s> &) const" % (n, n, U_, n, n, U_)
for n in (2, 3):
    ALIASES["inverse%d%df" % (n, n)] = "Matrix%d%d<float>::inverse() const" % (n, n)
    ALIASES["det%d%df" % (n, n)] = "Matrix%d%d<float>::determinant() const" % (n, n)
EXTRACTION = {}


def units(tier):
    ex = extract.run_extraction("c06x", DRIVER, sorted(set(ALIASES.values())), outdir=GEN)
    os.makedirs(GEN, exist_ok=True)
    txt = "\n".join("#define F_%s %s" % (a, ex.names[s]) for a, s in ALIASES.items()) + "\n"
    p = os.path.join(GEN, "c06_names.h")
    if not os.path.exists(p) or open(p).read() != txt:
        open(p, "w").write(txt)
    EXTRACTION["c06x"] = {"functions": len(ex.order), "differential": {k: ex.diff.get(k) for k in ("tested", "cases")}, "skipped": ex.diff.get("skipped", [])}
    rp = {"src": H, "lang": "c", "cxx": [ex.shim_cpp], "includes": [GEN] + ex.includes}
    us = []
    for name, clause, fns in (("adj22", "2x2: M*inverse(M) == inverse(M)*M == I on unit-determinant matrices L*U", ["inverse22u", "mul22u"]),
                              ("adj33", "3x3 cofactor path: M*inverse(M) == inverse(M)*M == I on L*U", ["inverse33u", "mul33u"]),
                              ("adj33affine", "3x3 affine fast path (last column 0,0,1)", ["inverse33u", "mul33u"]),
                              ("adj44affine", "4x4 affine branch: 3x3 cofactors + translation row", ["inverse44u", "mul44u"])):
        us.append(Unit("c06." + name, H, "h_" + name, includes=[GEN], backend="z3som", mode="RING", functions=[ALIASES[f] for f in fns], clause=clause, no_checks=True,
                       cbmc_flags=["--unwind", "6", "--no-signed-overflow-check", "--no-div-by-zero-check", "--object-bits", "10"], timeout=600, replay=rp,
                       assumptions=["RING: adjugate structure proved over Z/2^32 on the unsigned instantiation for the unit-determinant family M = L*U (and its affine extensions); a wrong cofactor index or sign breaks the identity on this family"]))
    # sing33 (3x3): cvc5 time-out at 20 min (harness h_sing33 kept) - not claimed
    sing = [("sing22", "IEEE: determinant() == 0 => inverse() is the identity (2x2, all finite entries)", ["inverse22f", "det22f"], "cvc5")]
    if os.environ.get("C06_SING33"):
        sing.append(("sing33", "IEEE: determinant() == 0 => inverse() is the identity (3x3, all finite entries)", ["inverse33f", "det33f"], os.environ["C06_SING33"]))
    for name, clause, fns, be in sing:
        us.append(Unit("c06." + name, H, "h_" + name, includes=[GEN], backend=be, mode="IEEE", functions=[ALIASES[f] for f in fns], clause=clause, no_checks=True,
                       cbmc_flags=["--unwind", "10", "--no-signed-overflow-check", "--object-bits", "10"], timeout=1200 if name == "sing22" else 7000, replay=rp))
    # in-place forms leave what value forms return: the C07 relational units for invert
    c07 = importlib.import_module("vf.props.c07")
    for u in c07.units(tier):
        if ".invert" in u.name and u.name.endswith(".rel"):
            u.name = u.name.replace("c07.", "c06.inplace.")
            us.append(u)
        elif u.name in ("c07.m4f.mod.invert0", "c07.m4f.mod.invertb", "c07.m4f.mod.guard"):
            # 4x4: in-place == value, and the general path (last column not (0,0,0,1)) is exactly gjInverse() - modular in gjInverse
            u.name = u.name.replace("c07.m4f.mod.", "c06.m44.")
            us.append(u)
    return us


def extra_coverage(units, tier):
    return {"extraction": EXTRACTION}


NOT_COVERED = [
    "determinant() == 0 => identity for 3x3 (both branches) and the 4x4 affine branch: attempted for 3x3, cvc5 time-out",
    "entry-wise error <= c*cond(M)*eps*|M^-1|, 'no NaN/inf for cond < 1/eps^2', continuity across the affine/non-affine switch: floating-point error analysis is beyond the verifier",
    "gjInverse numerics and its zero-pivot return; 4x4 general path; in-place == value for the gj and 4x4 copies (solver memory, see C07)",
    "'determinant so small that dividing would overflow => identity': the guard fact is not yet a separate lemma",
]
ASSUMPTIONS = ["RING mode transfer to float: same-shape + classical error bound (not machine-checked)", "cxx2c extraction rules; differential validation"]
