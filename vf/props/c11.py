"""C11: Euler angles - order encoding, slot permutations, 3x3 vs 4x4 copies."""
import os
from ..core import Unit, VERIF, REPO, BUILD
from .. import extract

GEN = os.path.join(BUILD, "C11")
H = os.path.join(VERIF, "harness", "c11.c")
DRIVER = '''#include "ImathEuler.h"
using namespace IMATH_INTERNAL_NAMESPACE;
template class IMATH_INTERNAL_NAMESPACE::Euler<float>;
'''
E = "Euler<float>"
ALIASES = {"order": E + "::order() const", "setOrder": E + "::setOrder(Euler<float>::Order)", "legal": E + "::legal(Euler<float>::Order)",
           "angleOrder": E + "::angleOrder(int &, int &, int &) const", "angleMapping": E + "::angleMapping(int &, int &, int &) const",
           "setXYZVector": E + "::setXYZVector(const Vec3<float> &)", "toXYZVector": E + "::toXYZVector() const",
           "toMatrix33": E + "::toMatrix33() const", "toMatrix44": E + "::toMatrix44() const",
           "extract33": E + "::extract(const Matrix33<float> &)", "extract44": E + "::extract(const Matrix44<float> &)"}
EXTRACTION = {}


def units(tier):
    ex = extract.run_extraction("c11x", DRIVER, sorted(set(ALIASES.values())), outdir=GEN)
    os.makedirs(GEN, exist_ok=True)
    txt = "\n".join("#define F_%s %s" % (a, ex.names[s]) for a, s in ALIASES.items()) + "\n"
    p = os.path.join(GEN, "c11_names.h")
    if not os.path.exists(p) or open(p).read() != txt:
        open(p, "w").write(txt)
    EXTRACTION["c11x"] = {"functions": len(ex.order), "differential": {k: ex.diff.get(k) for k in ("tested", "cases")}, "skipped": ex.diff.get("skipped", [])}
    rp = {"src": H, "lang": "c", "cxx": [ex.shim_cpp], "includes": [GEN] + ex.includes}
    N = lambda a: ex.names[ALIASES[a]]
    us = []

    def U(name, entry, enforce=(), clause="", fns=(), backend="sat", mode="BIT", defines=(), timeout=300):
        us.append(Unit("c11." + name, H, entry, enforce=list(enforce), includes=[GEN], functions=list(fns), clause=clause, backend=backend, mode=mode,
                       defines=list(defines), no_checks=True, timeout=timeout, replay=rp, cbmc_flags=["--unwind", "6", "--no-signed-overflow-check", "--object-bits", "10"]))
    U("setOrder", "h_setOrder", [N("setOrder")], "setOrder decodes the documented ABCD encoding into the four bit-fields; frame = the bit-fields", [ALIASES["setOrder"]])
    U("order", "h_order", [N("order")], "order() re-encodes the bit-fields", [ALIASES["order"]])
    U("legal", "h_legal", [N("legal")], "the 24 documented orders are legal", [ALIASES["legal"]])
    U("angleOrder", "h_angleOrder", [N("angleOrder")], "angleOrder: permutation starting at the initial axis, cyclic iff parity even", [ALIASES["angleOrder"]])
    U("angleMapping", "h_angleMapping", [N("angleMapping")], "angleMapping is a permutation of {0,1,2} sending the initial axis to slot 0", [ALIASES["angleMapping"]])
    U("lemma.order_roundtrip", "h_lemma_order_roundtrip", clause="lemma over the real functions: order() returns the order set for each of the 24 orders; angles untouched", fns=[ALIASES["order"], ALIASES["setOrder"]])
    U("lemma.mapping_inverse", "h_lemma_mapping_inverse", clause="lemma: angleMapping is the inverse permutation of angleOrder (all 24 orders)", fns=[ALIASES["angleOrder"], ALIASES["angleMapping"]])
    U("lemma.xyz_roundtrip", "h_lemma_xyz_roundtrip", clause="lemma: setXYZVector and toXYZVector are mutually inverse permutations of the angle slots (all orders, all angles)",
      fns=[ALIASES["setXYZVector"], ALIASES["toXYZVector"]], mode="IEEE")
    ABS = ["CXX2C_ABS_LIBM", "CXX2C_ABS_ARITH"]
    U("rel.toMatrix", "h_rel_toMatrix", clause="toMatrix33() and toMatrix44() hold the same rotation block (two textual copies of the Shoemake formulas), all 24 orders; sin/cos and arithmetic abstract",
      fns=[ALIASES["toMatrix33"], ALIASES["toMatrix44"]], mode="ABS", defines=ABS, timeout=900)
    # rel.extract (extract(Matrix33) vs extract(Matrix44)): two copies of rotate() + a 4x4 product; both back ends exceed 15 min - not claimed
    return us


def extra_coverage(units, tier):
    return {"extraction": EXTRACTION}


NOT_COVERED = [
    "extract(Matrix33) vs extract(Matrix44) agreement: attempted, solver time-out (harness h_rel_extract kept for reference)",
    "toMatrix33 equals the product of three elementary axis rotations in the order the enum encodes; XYZ order agrees with Matrix44::setEulerAngles: planned RING obligations, not in this revision",
    "toQuat vs toMatrix (half angles), extract -> build round trips and gimbal lock (atan2), angleMod / makeNear / nearestRotation ranges (fmod, pi arithmetic), extractEuler* in ImathMatrixAlgo.h",
    "orthonormality / determinant one of the matrices (needs sin^2 + cos^2 = 1)",
]
ASSUMPTIONS = ["relational units: sin, cos, atan2, sqrt and + - * / are uninterpreted (same symbol in both copies)", "cxx2c extraction rules; differential validation"]
