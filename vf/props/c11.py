"""C11: Euler angles - order encoding, slot permutations, 3x3 vs 4x4 copies."""
import os
from ..core import Unit, VERIF, REPO, BUILD, Undecided
from .. import extract

GEN = os.path.join(BUILD, "C11")
H = os.path.join(VERIF, "harness", "c11.c")
DRIVER = '''#include "ImathEuler.h"
using namespace IMATH_INTERNAL_NAMESPACE;
template class IMATH_INTERNAL_NAMESPACE::Euler<float>;
'''
E = "Euler<float>"
ALIASES = {"order": E + "::order() const", "setOrder": E + "::setOrder(Euler<float>::Order)", "legal": E + "::legal(Euler<float>::Order)",
           "angleOrder": E + "::angleOrder(int &, int &, int &) const", "angleMapping": E + "::angleMapping(int &, int &, int &) const",
           "setXYZVector": E + "::setXYZVector(const Vec3<float> &)", "toXYZVector": E + "::toXYZVector() const",
           "toMatrix33": E + "::toMatrix33() const", "toMatrix44": E + "::toMatrix44() const",
           "extract33": E + "::extract(const Matrix33<float> &)", "extract44": E + "::extract(const Matrix44<float> &)"}
EXTRACTION = {}
# ---- RING part: Euler<int>, cos/sin uninterpreted ring-valued functions ----
HR = os.path.join(VERIF, "harness", "c11_ring.c")
RDRIVER = '''#include "ImathEuler.h"
using namespace IMATH_INTERNAL_NAMESPACE;
void use11r (Euler<int> &e, Matrix33<int> &a, Matrix44<int> &b, Vec3<int> &v)
{
    e.setOrder (Euler<int>::XYZ); a = e.toMatrix33 (); b = e.toMatrix44 (); a = a * a; b.setEulerAngles (v);
}
'''
EI = "Euler<int>"
RALIASES = {"setOrder": EI + "::setOrder(Euler<int>::Order)", "toMatrix33": EI + "::toMatrix33() const", "toMatrix44": EI + "::toMatrix44() const",
            "mul33": "Matrix33<int>::operator*(const Matrix33<int> &) const", "setEuler44": "Matrix44<int>::setEulerAngles(const Vec3<int> &)"}
RTYPE_MAP = {"__gnu_cxx::__enable_if<__is_integer<int>::__value,double>::__type": "double"}
RING_TRIG = [(r"^std::cos\(int\)$", "cxx2c_ring_cosi"), (r"^std::sin\(int\)$", "cxx2c_ring_sini")]
ORDERS = ["XYZ", "XZY", "YZX", "YXZ", "ZXY", "ZYX", "XZX", "XYX", "YXY", "YZY", "ZYZ", "ZXZ"]


def order_table():
    """the enum values, cut from the real header on every run (must find all 24)"""
    import re
    txt = open(os.path.join(REPO, "src/Imath/ImathEuler.h")).read()
    m = re.search(r"enum\s+IMATH_EXPORT_ENUM\s+Order\s*\{(.*?)Legal\s*=", txt, re.S)
    if not m:
        raise Undecided("c11: enum Order not found in ImathEuler.h")
    vals = dict(re.findall(r"\b([XYZ]{3}r?)\s*=\s*(0x[0-9a-fA-F]+)", m.group(1)))
    want = ORDERS + [o + "r" for o in ORDERS]
    if sorted(vals) != sorted(want):
        raise Undecided("c11: enum Order: expected the 24 orders, found %s" % sorted(vals))
    return vals


def ring_units(tier):
    ex = extract.run_extraction("c11rx", RDRIVER, sorted(set(RALIASES.values())), outdir=GEN, type_map=RTYPE_MAP, extern_patterns=RING_TRIG)
    txt = "\n".join("#define F_%s %s" % (a, ex.names[s]) for a, s in RALIASES.items()) + "\n"
    p = os.path.join(GEN, "c11r_names.h")
    if not os.path.exists(p) or open(p).read() != txt:
        open(p, "w").write(txt)
    vals = order_table()
    txt = "".join("#define ORD_%s %s\n" % (k, v) for k, v in sorted(vals.items()))
    p = os.path.join(GEN, "c11r_orders.h")
    if not os.path.exists(p) or open(p).read() != txt:
        open(p, "w").write(txt)
    EXTRACTION["c11rx"] = {"functions": len(ex.order), "differential": {k: ex.diff.get(k) for k in ("tested", "cases")}, "skipped": ex.diff.get("skipped", [])}
    rp = {"src": HR, "lang": "c", "cxx": [ex.shim_cpp], "includes": [GEN] + ex.includes}
    fl = ["--unwind", "6", "--no-signed-overflow-check", "--object-bits", "10"]
    asm = ["RING: polynomial identities over Z/2^32 on the int instantiation (wrap-around); cos / sin uninterpreted ring-valued functions with cos(-a) = cos(a), sin(-a) = -sin(a) assumed; transfer to float by same template (not machine-checked)"]
    us = []
    for o in ORDERS:
        ax = ["XYZ".index(c) for c in o]
        us.append(Unit("c11.ring.product_" + o, HR, "h_order_product", includes=[GEN], backend="z3som", mode="RING", no_checks=True, timeout=600, replay=rp, cbmc_flags=fl,
                       defines=["CXX2C_RING_TRIG", "ORD=ORD_" + o, "AX0=%d" % ax[0], "AX1=%d" % ax[1], "AX2=%d" % ax[2], "ROTATING=0"],
                       functions=[RALIASES["setOrder"], RALIASES["toMatrix33"]], assumptions=asm,
                       clause="order %s: toMatrix33() == %s" % (o, " x ".join(("R%s(a%d)" % (c, i)) for i, c in enumerate(o)))))
        us.append(Unit("c11.ring.rotating_" + o + "r", HR, "h_order_rotating", includes=[GEN], backend="z3som", mode="RING", no_checks=True, timeout=600, replay=rp, cbmc_flags=fl,
                       defines=["CXX2C_RING_TRIG", "ORD=ORD_" + o + "r", "AX0=0", "AX1=1", "AX2=2", "ROTATING=1"],
                       functions=[RALIASES["setOrder"], RALIASES["toMatrix33"]], assumptions=asm,
                       clause="order %sr: toMatrix33() on (a0,a1,a2) == the static order with the same axis/parity/repeat bits on (a2,a1,a0)" % o))
    us.append(Unit("c11.ring.xyz_setEulerAngles", HR, "h_xyz_setEuler", includes=[GEN], backend="z3som", mode="RING", no_checks=True, timeout=600, replay=rp, cbmc_flags=fl,
                   defines=["CXX2C_RING_TRIG"], functions=[RALIASES["toMatrix44"], RALIASES["setEuler44"]], assumptions=asm, clause="XYZ order agrees with Matrix44::setEulerAngles"))
    return us


def units(tier):
    ex = extract.run_extraction("c11x", DRIVER, sorted(set(ALIASES.values())), outdir=GEN)
    os.makedirs(GEN, exist_ok=True)
    txt = "\n".join("#define F_%s %s" % (a, ex.names[s]) for a, s in ALIASES.items()) + "\n"
    p = os.path.join(GEN, "c11_names.h")
    if not os.path.exists(p) or open(p).read() != txt:
        open(p, "w").write(txt)
    EXTRACTION["c11x"] = {"functions": len(ex.order), "differential": {k: ex.diff.get(k) for k in ("tested", "cases")}, "skipped": ex.diff.get("skipped", [])}
    rp = {"src": H, "lang": "c", "cxx": [ex.shim_cpp], "includes": [GEN] + ex.includes}
    N = lambda a: ex.names[ALIASES[a]]
    us = []

    def U(name, entry, enforce=(), clause="", fns=(), backend="sat", mode="BIT", defines=(), timeout=300):
        us.append(Unit("c11." + name, H, entry, enforce=list(enforce), includes=[GEN], functions=list(fns), clause=clause, backend=backend, mode=mode,
                       defines=list(defines), no_checks=True, timeout=timeout, replay=rp, cbmc_flags=["--unwind", "6", "--no-signed-overflow-check", "--object-bits", "10"]))
    U("setOrder", "h_setOrder", [N("setOrder")], "setOrder decodes the documented ABCD encoding into the four bit-fields; frame = the bit-fields", [ALIASES["setOrder"]])
    U("order", "h_order", [N("order")], "order() re-encodes the bit-fields", [ALIASES["order"]])
    U("legal", "h_legal", [N("legal")], "the 24 documented orders are legal", [ALIASES["legal"]])
    U("angleOrder", "h_angleOrder", [N("angleOrder")], "angleOrder: permutation starting at the initial axis, cyclic iff parity even", [ALIASES["angleOrder"]])
    U("angleMapping", "h_angleMapping", [N("angleMapping")], "angleMapping is a permutation of {0,1,2} sending the initial axis to slot 0", [ALIASES["angleMapping"]])
    U("lemma.order_roundtrip", "h_lemma_order_roundtrip", clause="lemma over the real functions: order() returns the order set for each of the 24 orders; angles untouched", fns=[ALIASES["order"], ALIASES["setOrder"]])
    U("lemma.mapping_inverse", "h_lemma_mapping_inverse", clause="lemma: angleMapping is the inverse permutation of angleOrder (all 24 orders)", fns=[ALIASES["angleOrder"], ALIASES["angleMapping"]])
    U("lemma.xyz_roundtrip", "h_lemma_xyz_roundtrip", clause="lemma: setXYZVector and toXYZVector are mutually inverse permutations of the angle slots (all orders, all angles)",
      fns=[ALIASES["setXYZVector"], ALIASES["toXYZVector"]], mode="IEEE")
    ABS = ["CXX2C_ABS_LIBM", "CXX2C_ABS_ARITH"]
    U("rel.toMatrix", "h_rel_toMatrix", clause="toMatrix33() and toMatrix44() hold the same rotation block (two textual copies of the Shoemake formulas), all 24 orders; sin/cos and arithmetic abstract",
      fns=[ALIASES["toMatrix33"], ALIASES["toMatrix44"]], mode="ABS", defines=ABS, timeout=900)
    # extract(Matrix33) vs extract(Matrix44): two copies of rotate() + a 4x4 product; with a symbolic order both back ends exceed 15 min,
    # with the order a constant (one unit per order, enum values cut from the header) the axis indices fold
    for oname, oval in sorted(order_table().items()):
        us.append(Unit("c11.rel.extract_" + oname, H, "h_rel_extract", includes=[GEN], functions=[ALIASES["extract33"], ALIASES["extract44"]], backend=os.environ.get("C11_BE", "kissat"), mode="ABS",
                       defines=ABS + ["ORDC=" + oval], no_checks=True, timeout=600, replay=rp, cbmc_flags=["--unwind", "6", "--no-signed-overflow-check", "--object-bits", "10"],
                       clause="order %s: extract(Matrix33) and extract(Matrix44) give identical angles for the same rotation block (sin/cos/atan2/sqrt and arithmetic abstract)" % oname))
    return us + ring_units(tier)


def extra_coverage(units, tier):
    return {"extraction": EXTRACTION}


NOT_COVERED = [
    "extract(Matrix33) vs extract(Matrix44) agreement: attempted, solver time-out (harness h_rel_extract kept for reference)",
    "what the NAMES of the rotating (r) orders mean: the property text does not say; see DESIGN section 11 (observation on 10 of the 12 r names vs Shoemake's table)",
    "toQuat vs toMatrix (half angles), extract -> build round trips and gimbal lock (atan2), angleMod / makeNear / nearestRotation ranges (fmod, pi arithmetic), extractEuler* in ImathMatrixAlgo.h",
    "orthonormality / determinant one of the matrices (needs sin^2 + cos^2 = 1)",
]
ASSUMPTIONS = ["relational units: sin, cos, atan2, sqrt and + - * / are uninterpreted (same symbol in both copies)", "cxx2c extraction rules; differential validation"]
