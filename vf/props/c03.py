"""C03: class half - arithmetic, classes, limits, round(n)."""
import os
from ..core import Unit, VERIF, REPO, BUILD
from .. import extract

GEN = os.path.join(BUILD, "C03")
H = os.path.join(VERIF, "harness", "c03.c")
DRIVER = '''#include "half.h"
#include "halfLimits.h"
using namespace IMATH_INTERNAL_NAMESPACE;
void use_h (half &a, half &b, float f, bool &r, unsigned n)
{
    a = half (f); f = float (a); a += b; a -= b; a *= b; a /= b; a += f; a -= f; a *= f; a /= f; a = -a; a = a.round (n);
    r = a.isFinite (); r = a.isNormalized (); r = a.isDenormalized (); r = a.isZero (); r = a.isNan (); r = a.isInfinity (); r = a.isNegative ();
    a = std::numeric_limits<half>::max (); a = std::numeric_limits<half>::min (); a = std::numeric_limits<half>::lowest (); a = std::numeric_limits<half>::epsilon ();
    a = std::numeric_limits<half>::denorm_min (); a = std::numeric_limits<half>::infinity (); a = std::numeric_limits<half>::quiet_NaN (); a = std::numeric_limits<half>::signaling_NaN ();
}
'''
ALIASES = {
    "f2h": "imath_float_to_half(float)", "h2f": "imath_half_to_float(imath_half_bits_t)",
    "ctor": "half::half(float)", "cast": "half::operator float() const",
    "addeq_h": "half::operator+=(half)", "addeq_f": "half::operator+=(float)", "subeq_h": "half::operator-=(half)", "subeq_f": "half::operator-=(float)",
    "muleq_h": "half::operator*=(half)", "muleq_f": "half::operator*=(float)", "diveq_h": "half::operator/=(half)", "diveq_f": "half::operator/=(float)",
    "neg": "half::operator-() const", "round": "half::round(unsigned int) const",
    "isZero": "half::isZero() const", "isNormalized": "half::isNormalized() const", "isDenormalized": "half::isDenormalized() const",
    "isInfinity": "half::isInfinity() const", "isNan": "half::isNan() const", "isFinite": "half::isFinite() const", "isNegative": "half::isNegative() const",
    "lim_max": "std::numeric_limits<half>::max()", "lim_min": "std::numeric_limits<half>::min()", "lim_lowest": "std::numeric_limits<half>::lowest()",
    "lim_epsilon": "std::numeric_limits<half>::epsilon()", "lim_denorm_min": "std::numeric_limits<half>::denorm_min()",
    "lim_infinity": "std::numeric_limits<half>::infinity()", "lim_qnan": "std::numeric_limits<half>::quiet_NaN()", "lim_snan": "std::numeric_limits<half>::signaling_NaN()",
}
EXTRACTION = {}


def units(tier):
    ex = extract.run_extraction("c03x", DRIVER, sorted(set(ALIASES.values())), outdir=GEN, defines=["IMATH_HALF_NO_LOOKUP_TABLE"])
    os.makedirs(GEN, exist_ok=True)
    txt = "\n".join("#define F_%s %s" % (a, ex.names[s]) for a, s in ALIASES.items()) + "\n"
    p = os.path.join(GEN, "c03_names.h")
    if not os.path.exists(p) or open(p).read() != txt:
        open(p, "w").write(txt)
    # HALF_* macro values straight from the real header
    from ..core import sh, std_includes, Undecided
    rc, so, se, _ = sh(["gcc", "-E", "-dM", "-x", "c", "-DIMATH_HALF_NO_LOOKUP_TABLE"] + std_includes() + [os.path.join(REPO, "src/Imath/half.h")], timeout=120)
    macros = [l for l in so.split("\n") if l.startswith("#define HALF_")]
    if rc != 0 or len(macros) < 10:
        raise Undecided("extraction: cannot read the HALF_* macros from half.h")
    mt = "\n".join(sorted(macros)) + "\n"
    mp = os.path.join(GEN, "c03_macros.h")
    if not os.path.exists(mp) or open(mp).read() != mt:
        open(mp, "w").write(mt)
    EXTRACTION["c03x"] = {"functions": len(ex.order), "differential": {k: ex.diff.get(k) for k in ("tested", "cases")}, "skipped": ex.diff.get("skipped", [])}
    rp = {"src": H, "lang": "c", "cxx": [ex.shim_cpp], "includes": [GEN] + ex.includes, "flags": ["-DIMATH_HALF_NO_LOOKUP_TABLE"]}
    N = lambda a: ex.names[ALIASES[a]]
    conv = [N("f2h"), N("h2f")]
    members = [N("ctor"), N("cast")]
    us = []

    def U(name, entry, enforce=(), replace=(), clause="", fns=(), backend="sat", timeout=300, mode="BIT", defines=()):
        us.append(Unit("c03." + name, H, entry, enforce=list(enforce), replace=list(replace), includes=[GEN], functions=list(fns), clause=clause,
                       backend=backend, timeout=timeout, mode=mode, replay=rp, no_checks=True, defines=["IMATH_HALF_NO_LOOKUP_TABLE"] + list(defines),
                       cbmc_flags=["--unwind", "12", "--no-signed-overflow-check", "--object-bits", "12"]))
    U("f2h.cxx", "h_f2h", enforce=[N("f2h")], fns=["imath_float_to_half as compiled in C++"], clause="float->half through the C++ inclusion of half.h == RNE spec, all 2^32")
    U("h2f.cxx", "h_h2f", enforce=[N("h2f")], fns=["imath_half_to_float as compiled in C++ (bit-shift path)"], clause="half->float through the C++ inclusion == binary16 value, all 2^16")
    U("ctor", "h_ctor", enforce=[N("ctor")], replace=[N("f2h")], fns=["half::half(float)"], clause="constructor stores f2h(f) (callee through its contract)")
    U("cast", "h_cast", enforce=[N("cast")], replace=[N("h2f")], fns=["half::operator float()"], clause="cast returns h2f(bits) (callee through its contract)")
    U("roundtrip.members", "h_roundtrip_members", replace=members, fns=["half::half(float)", "half::operator float()"], clause="lemma from the two member contracts: half(float(h)) == h off NaN")
    for op in ("addeq", "subeq", "muleq", "diveq"):
        for k in ("h", "f"):
            a = "%s_%s" % (op, k)
            hard = op in ("muleq", "diveq")
            # float * and / : two multiplier/divider circuits with bit-equal inputs defeat SAT; there the float
            # operation is an uninterpreted function (mode ABS) - the same symbol in code and spec, a different
            # symbol for a different operator
            U(a, "h_" + a, enforce=[N(a)], replace=members, fns=[ALIASES[a]], mode="ABS" if hard else "IEEE", timeout=900,
              defines=["CXX2C_ABS_ARITH"] if hard else [],
              clause="%s == f2h(h2f(a) op b): one float operation between two conversions (all operand pairs)%s" % (ALIASES[a], "; float op uninterpreted" if hard else ""))
    U("neg", "h_neg", enforce=[N("neg")], fns=[ALIASES["neg"]], clause="unary minus flips exactly bit 15")
    cls = ("isZero", "isNormalized", "isDenormalized", "isInfinity", "isNan", "isFinite", "isNegative")
    for c in cls:
        U(c, "h_" + c, enforce=[N(c)], fns=[ALIASES[c]], clause="%s against the binary16 class of the pattern, all 2^16" % c)
    U("lemma.classes", "h_lemma_classes", replace=[N(c) for c in cls] + [N("cast")], fns=[ALIASES[c] for c in cls], mode="IEEE",
      clause="lemma from the predicate contracts: exactly one class; agreement with isFinite/isNegative and with the float class of the value")
    U("round", "h_round", enforce=[N("round")], fns=[ALIASES["round"]], clause="round(n): all non-NaN patterns, every n (symbolic unsigned)")
    U("limits", "h_limits", fns=[ALIASES[k] for k in ALIASES if k.startswith("lim_")], mode="IEEE",
      clause="numeric_limits<half> and HALF_* are the format's extremes and agree with the conversions")
    U("lemma.extremes", "h_lemma_extremes", mode="IEEE", clause="lemma: no finite half exceeds max(), none is below denorm_min()/min() (all patterns)")
    return us + hf_units(tier)


HF_DRIVER = '''#include "halfFunction.h"
struct VfHF { float operator() (half x) const; };   // declared only: an arbitrary pure function
void usehf (VfHF f, half lo, half hi, float d, float p, float n, float q, half x, float &r) { halfFunction<float> t (f, lo, hi, d, p, n, q); r = t (x); }
'''
HF = {"hf_ctor": "halfFunction<float>::halfFunction(VfHF, half, half, float, float, float, float)", "hf_call": "halfFunction<float>::operator()(half) const"}


def hf_units(tier):
    """halfFunction<float>: constructor loop under a loop contract (harness/c03_hf.c)"""
    import re
    from ..core import Undecided
    # IMATH_HAVE_LARGE_STACK: the table is a member array (the configuration without operator new[]); bit-shift conversion (no table pointer)
    ex = extract.run_extraction("c03hfx", HF_DRIVER, sorted(HF.values()), outdir=GEN, diff=False, defines=["IMATH_HAVE_LARGE_STACK", "IMATH_HALF_NO_LOOKUP_TABLE"],
                                extern_funcs={"VfHF::operator()": "cxx2c_vfhf"})
    txt = "\n".join("#define F_%s %s" % (a, ex.names[sp]) for a, sp in HF.items()) + "\n"
    p = os.path.join(GEN, "c03hf_names.h")
    if not os.path.exists(p) or open(p).read() != txt:
        open(p, "w").write(txt)
    src = open(ex.c_path).read()
    fn = ex.names[HF["hf_ctor"]]
    i = src.find("void %s(" % fn)
    j = src.find("\n}\n", i)
    body = src[i:j]
    loop = "for (; (i < ((1 << 16))); (i++))"
    if i < 0 or body.count(loop) != 1 or body.count("for (") != 1:
        raise Undecided("extraction: halfFunction's constructor no longer has the single loop 'for (int i = 0; i < (1 << 16); i++)'")
    temps = sorted(set(re.findall(r"\b(_t\d+)\s*=", body[body.find(loop):])), key=lambda t: int(t[2:]))
    inj = (loop + "\n"
           "            __CPROVER_assigns (i, %s__CPROVER_object_whole (this_))\n"
           "            __CPROVER_loop_invariant (0 <= i && i <= 65536)\n"
           "            __CPROVER_loop_invariant (!(vf_gk < (unsigned long) i) || *(unsigned int *) &this_->_lut[vf_gk] == vf_ge)\n"
           "            __CPROVER_decreases (65536 - i)") % "".join(t + ", " for t in temps)
    lc = src[:i] + body.replace(loop, inj) + src[j:]
    lc = lc.replace('#include "c03hfx.h"', "")
    lp = os.path.join(GEN, "c03hf_lc.c")
    if not os.path.exists(lp) or open(lp).read() != lc:
        open(lp, "w").write(lc)
    EXTRACTION["c03hfx"] = {"functions": len(ex.order), "differential": "not run (f is declared only); the half members it calls are those of c03x",
                            "loop_contract": "inserted into the constructor's single for-loop on every run (must-fire)"}
    HH = os.path.join(VERIF, "harness", "c03_hf.c")
    return [Unit("c03.halfFunction", HH, "h_hf", includes=[GEN], backend=os.environ.get("C03HF_BE", "sat"), mode="BIT", functions=sorted(HF.values()), no_checks=True, timeout=900, loop_contracts=True,
                 replay={"src": os.path.join(VERIF, "harness", "c03_hf_replay.cpp"), "lang": "c++", "includes": [os.path.join(REPO, "src/Imath")], "cxx": [os.path.join(REPO, "src/Imath/half.cpp")]},
                 defines=["IMATH_HALF_NO_LOOKUP_TABLE"], cbmc_flags=["--no-signed-overflow-check", "--object-bits", "10", "--unwind", "12"] + os.environ.get("C03HF_FLAGS", "--arrays-uf-always").split(),
                 clause="halfFunction<float>: every table entry is f(x) for finite x in [domainMin, domainMax] and the designated default / +inf / -inf / NaN value otherwise; operator() reads the entry (loop contract with ghost index: all 65536 entries, no unwinding)",
                 assumptions=["f is an uninterpreted pure function of its argument's bits", "configuration IMATH_HAVE_LARGE_STACK (table as a member array; the other configuration differs by one operator new[])",
                              "the loop contract text is inserted into the extracted C by c03.py (the repository file is not edited)"])]


def extra_coverage(units, tier):
    return {"extraction": EXTRACTION}


NOT_COVERED = [
    "operator<< / operator>> text round trip (libstdc++ float formatting and parsing are outside the verifier)",
    "halfFunction in the configuration without IMATH_HAVE_LARGE_STACK (operator new[] / delete[] of the table)",
]
ASSUMPTIONS = ["cxx2c extraction rules; differential validation against the real C++",
               "x86intrin.h stubbed (F16C path not modelled)"]
