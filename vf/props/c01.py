"""C01: float<->half conversion is exact binary16 round-to-nearest-even."""
import os, re
from ..core import Unit, VERIF, REPO, BUILD, Undecided

H = os.path.join(VERIF, "harness", "c01.c")
GEN = os.path.join(BUILD, "gen")


def cut_half_table():
    """Cut the table definition out of half.cpp exactly as written there (must-fire)."""
    src = open(os.path.join(REPO, "src/Imath/half.cpp")).read()
    m = re.search(r"^const imath_half_uif_t imath_half_to_float_table_data\[1 << 16\] =\n#include \"toFloat.h\"\n",
                  src, re.M)
    m2 = re.search(r"^EXPORT_CONST const imath_half_uif_t \*imath_half_to_float_table = imath_half_to_float_table_data;\n",
                   src, re.M)
    if not m or not m2:
        raise Undecided("extraction: table definition in half.cpp not found in the expected form")
    os.makedirs(GEN, exist_ok=True)
    txt = "/* cut from /repo/src/Imath/half.cpp (dropped: extern \"C\", EXPORT_CONST) */\n" + m.group(0) + \
          m2.group(0).replace("EXPORT_CONST ", "")
    p = os.path.join(GEN, "half_table.inc")
    if not os.path.exists(p) or open(p).read() != txt:
        open(p, "w").write(txt)
    return GEN


def gen_table_units(gen):
    """Transcribe the shipped toFloat.h into one ground obligation per entry:
    spec_h2f(y) == entry[y].  Must-fire: the file is exactly 65536 '{0x...}' tokens
    inside one pair of braces."""
    t = open(os.path.join(REPO, "src/Imath/toFloat.h")).read()
    body = re.sub(r"//[^\n]*\n", "", t)
    m = re.fullmatch(r"\s*\{(.*)\};?\s*", body, re.S)
    if not m:
        raise Undecided("extraction: toFloat.h is not a single brace-enclosed initialiser")
    toks = [x.strip() for x in m.group(1).split(",") if x.strip()]
    vals = []
    for x in toks:
        mm = re.fullmatch(r"\{\s*(0x[0-9a-fA-F]+|[0-9]+)[uU]?\s*\}", x)
        if not mm:
            raise Undecided("extraction: unexpected toFloat.h token %r" % x[:40])
        vals.append(int(mm.group(1), 0))
    if len(vals) != 65536:
        raise Undecided("extraction: toFloat.h has %d entries, expected 65536" % len(vals))
    us = []
    for k in range(16):
        p = os.path.join(gen, "c01_table_%02d.c" % k)
        with open(p, "w") as f:
            f.write('/* generated from /repo/src/Imath/toFloat.h entries %d..%d */\n#include "vf.h"\n#include "spec_half.h"\nvoid h_table (void)\n{\n' % (k * 4096, k * 4096 + 4095))
            for y in range(k * 4096, (k + 1) * 4096):
                f.write('    VF_ASSERT (spec_h2f (%du) == 0x%08xu, "toFloat.h entry %d is the binary16 value");\n' % (y, vals[y], y))
            f.write("    VF_END ();\n}\n")
        us.append(Unit("c01.table.%02d" % k, p, "h_table", cbmc_flags=["--unwind", "12", "--unwinding-assertions"],
                       functions=["imath_half_to_float_table_data (toFloat.h)"], no_checks=True,
                       clause="table lemma: toFloat.h entries %d..%d equal spec_h2f" % (k * 4096, k * 4096 + 4095),
                       replay={"src": os.path.join(VERIF, "harness", "c01_table_replay.c"), "lang": "c",
                               "flags": ["-I" + gen]}))
    return us


NOTAB = ["IMATH_HALF_NO_LOOKUP_TABLE"]
TAB = ["IMATH_HALF_USE_LOOKUP_TABLE", "VF_WITH_TABLE"]
RP = {"src": H, "lang": "c"}
UW = ["--unwind", "12", "--unwinding-assertions"]  # spec_h2f normalisation loop: at most 10 iterations


def units(tier):
    gen = cut_half_table()
    F2H = "imath_float_to_half (half.h)"
    H2F = "imath_half_to_float (half.h)"
    us = [
        Unit("c01.f2h", H, "h_f2h", enforce=["imath_float_to_half"], defines=NOTAB, functions=[F2H],
             clause="float->half == RNE spec, all 2^32 inputs; overflow/underflow/NaN/sign clauses", replay=RP),
        Unit("c01.h2f.shift", H, "h_h2f", enforce=["imath_half_to_float"], defines=NOTAB, functions=[H2F],
             clause="half->float (bit-shift path) == binary16 value, all 2^16 inputs", replay=RP),
        Unit("c01.h2f.table", H, "h_h2f", enforce=["imath_half_to_float"], defines=TAB, includes=[gen], cbmc_flags=UW + ["--arrays-uf-always"],
             functions=[H2F + " table path"],
             clause="half->float (lookup-table path) == binary16 value given the table lemma at index h, all 2^16 inputs",
             replay=RP),
        Unit("c01.roundtrip", H, "h_roundtrip", replace=["imath_float_to_half", "imath_half_to_float"],
             defines=NOTAB, functions=[F2H, H2F],
             clause="lemma from contracts only: f2h(h2f(h)) == h for every non-NaN h", replay=RP),
        Unit("c01.roundtrip_nan", H, "h_roundtrip_nan", replace=["imath_float_to_half", "imath_half_to_float"],
             defines=NOTAB, functions=[F2H, H2F],
             clause="lemma from contracts only: NaN halves keep sign and payload through float", replay=RP),
        Unit("c01.spec_h2f_value", H, "h_spec_h2f_value", defines=NOTAB,
             clause="spec sanity: spec_h2f equals m*2^(e-25) in IEEE arithmetic (all finite halves)", mode="IEEE",
             replay=RP, timeout=600),
    ]
    us += gen_table_units(gen)
    if tier == "thorough":
        us += [
            Unit("c01.h2f_monotone", H, "h_h2f_monotone", replace=["imath_half_to_float"], defines=NOTAB,
                 functions=[H2F], clause="lemma: h2f strictly monotone per sign", mode="IEEE", replay=RP, timeout=900),
            Unit("c01.f2h_monotone", H, "h_f2h_monotone", replace=["imath_float_to_half"], defines=NOTAB,
                 functions=[F2H], clause="lemma: f2h monotone", replay=RP, timeout=900),
            Unit("c01.spec_f2h_nearest", H, "h_spec_f2h_nearest", defines=NOTAB,
                 clause="spec sanity: spec_f2h returns a nearest half, even on ties (exact double distances)",
                 mode="IEEE", replay=RP, timeout=1800),
        ]
    for u in us:
        if not u.cbmc_flags:
            u.cbmc_flags += UW
    return us


NOT_COVERED = [
    "F16C hardware path (compiler builtins, no CBMC model) - see C02",
]
ASSUMPTIONS = [
    "x86intrin.h replaced by an empty stub when half.h is parsed by goto-cc (only the F16C branch uses it)",
    "table definition cut from half.cpp by regular expression (extern \"C\" / EXPORT_CONST dropped)",
]
