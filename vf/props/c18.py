"""C18: rand48 family, Rand32, Rand48 - extracted from ImathRandom.cpp/.h."""
import os
from ..core import Unit, VERIF, REPO, BUILD
from .. import extract

GEN = os.path.join(BUILD, "C18")
H = os.path.join(VERIF, "harness", "c18.c")
DRIVER = '''#include "%s/src/Imath/ImathRandom.cpp"
#include "ImathVec.h"
using namespace IMATH_INTERNAL_NAMESPACE;
void use_c18 (Rand32 &a, Rand48 &b, unsigned long s) { a.init (s); b.init (s); a.nextb (); a.nexti (); a.nextf (); a.nextf (0.f, 1.f); b.nextb (); b.nexti (); b.nextf (); b.nextf (0., 1.); }
''' % REPO
WANTED = ["rand48Next", "erand48", "nrand48", "drand48", "lrand48", "srand48",
          "Rand32::init", "Rand32::next", "Rand32::nextb", "Rand32::nexti", "Rand32::nextf()",
          "Rand32::nextf(float, float)", "Rand48::init", "Rand48::nextb", "Rand48::nexti", "Rand48::nextf()",
          "Rand48::nextf(double, double)"]
EXTRACTION = {}


def units(tier):
    ex = extract.run_extraction("c18x", DRIVER, WANTED, outdir=GEN,
                                diff_skip=["Imath_lrand48", "Imath_drand48", "srand48__long"])
    EXTRACTION["c18"] = {"functions": len(ex.order), "differential": {k: ex.diff.get(k) for k in ("tested", "cases")},
                         "skipped": ex.diff.get("skipped", []), "sha": {k: v["sha"] for k, v in ex.info.items()}}
    rp = {"src": H, "lang": "c", "cxx": [ex.shim_cpp], "includes": [GEN] + ex.includes}
    N = ex.names

    def U(name, entry, enforce=(), replace=(), clause="", fns=(), backend="cvc5", timeout=300, mode="BIT", slice=False):
        return Unit("c18." + name, H, entry, enforce=list(enforce), replace=list(replace), includes=[GEN],
                    functions=list(fns), clause=clause, backend=backend, timeout=timeout, mode=mode, replay=rp,
                    cbmc_flags=["--slice-formula"] if slice else [])
    R48 = "rand48Next__ushortP"
    us = [
        U("rand48Next", "h_rand48Next", enforce=[R48], fns=["rand48Next (ImathRandom.cpp)"],
          clause="state update is the POSIX LCG, all 2^48 states; frame = the three state words"),
        U("nrand48", "h_nrand48", enforce=["nrand48__ushortP"], replace=[R48], fns=["nrand48"],
          clause="nrand48: POSIX value (31 high bits of X') and successor state"),
        U("erand48.value", "h_erand48", enforce=["erand48__ushortP/erand48_value_view"], replace=[R48 + "/rand48Next_frame"], fns=["erand48"], backend="sat", mode="IEEE",
          clause="erand48 value view: in [0,1) and within 2^-48 of (successor state)/2^48"),
        U("erand48.state", "h_erand48", enforce=["erand48__ushortP/erand48_state_view"], replace=[R48], fns=["erand48"], backend="cvc5",
          clause="erand48 state view: successor state is the POSIX recurrence", slice=True),
        U("erand48.compose", "h_erand48_compose", fns=[], backend="cvc5", mode="IEEE",
          clause="lemma: the two views give the POSIX statement |r - X'/2^48| < 2^-48"),
        U("lrand48", "h_lrand48", enforce=["Imath_lrand48"], replace=["nrand48__ushortP"], fns=["lrand48"],
          clause="lrand48 = nrand48 on the static state"),
        U("drand48", "h_drand48", enforce=["Imath_drand48"], replace=["erand48__ushortP"], fns=["drand48"], backend="cvc5", mode="IEEE",
          clause="drand48 = erand48 on the static state"),
        U("srand48", "h_srand48", enforce=["srand48__long"], fns=["srand48"], clause="srand48 seeds as POSIX: {0x330E, seed low, seed high}"),
        U("r32.init", "h_r32_init", enforce=["Rand32_init__ulong"], fns=["Rand32::init"], clause="Rand32::init is a pure function of the seed"),
        U("r32.next", "h_r32_next", enforce=["Rand32_next"], fns=["Rand32::next"], clause="Rand32 LCG step"),
        U("r32.nextb", "h_r32_nextb", enforce=["Rand32_nextb"], replace=["Rand32_next"], fns=["Rand32::nextb"], clause="bit 31 of the new state"),
        U("r32.nexti", "h_r32_nexti", enforce=["Rand32_nexti"], replace=["Rand32_next"], fns=["Rand32::nexti"], clause="low 32 bits, < 2^32"),
        U("r32.nextf.value", "h_r32_nextf", enforce=["Rand32_nextf/Rand32_nextf_value_view"], replace=["Rand32_next/Rand32_next_frame"], fns=["Rand32::nextf()"], backend="sat", mode="IEEE",
          clause="nextf in [0,1), equals (low 23 bits of the successor state)/2^23"),
        U("r32.nextf.state", "h_r32_nextf", enforce=["Rand32_nextf/Rand32_nextf_state_view"], replace=["Rand32_next"], fns=["Rand32::nextf()"], backend="cvc5", slice=True,
          clause="nextf advances the state by exactly one LCG step"),
        U("r48.init", "h_r48_init", enforce=["Rand48_init__ulong"], fns=["Rand48::init"], clause="Rand48::init is a pure function of the seed"),
        U("r48.nextb", "h_r48_nextb", enforce=["Rand48_nextb"], replace=["nrand48__ushortP"], fns=["Rand48::nextb"], clause="forwards to nrand48"),
        U("r48.nexti", "h_r48_nexti", enforce=["Rand48_nexti"], replace=["nrand48__ushortP"], fns=["Rand48::nexti"], clause="forwards to nrand48"),
        U("r48.nextf", "h_r48_nextf", enforce=["Rand48_nextf"], replace=["erand48__ushortP"], fns=["Rand48::nextf()"], backend="cvc5", mode="IEEE",
          clause="forwards to erand48"),
        U("determinism", "h_lemma_determinism", replace=["nrand48__ushortP", "erand48__ushortP"], fns=[],
          clause="lemma from contracts: equal states give equal values and equal successor states"),
    ]
    for u in us:
        # (unsigned short)(seed >> 16) etc. are the documented truncations: conversion checks off
        u.no_checks = True  # cbmc 6 standard checks stay on; no conversion check (documented truncations)
        u.cbmc_flags += ["--no-signed-overflow-check", "--unwind", "4"]
    return us


NOT_COVERED = [
    "nextf(a,b) closed-interval bound up to one rounding (two multiplications and an addition in IEEE: not attempted in this revision)",
    "solidSphereRand / hollowSphereRand / gaussSphereRand / gaussRand (rejection loops, sqrt, log): not under contract in this revision; termination never provable here",
    "agreement with the libc functions of the same name is by the POSIX text (spec macros), not by executing libc",
]
ASSUMPTIONS = [
    "cxx2c extraction rules; extracted C differentially validated natively against the real C++",
    "goto-instrument --dfcc havocs the static state, so the parameterless forms are proved for every static state",
]
