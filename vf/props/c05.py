"""C05: products, transposes, minors, determinants equal their algebraic definitions (RING mode)."""
import os, re
from ..core import Unit, VERIF, REPO, BUILD
from .. import extract

GEN = os.path.join(BUILD, "C05")
H = os.path.join(VERIF, "harness", "c05.c")
U = "unsigned int"

DRIVER = '''#include "ImathVec.h"
#include "ImathMatrix.h"
#include "ImathMatrixAlgo.h"
#include "ImathQuat.h"
using namespace IMATH_INTERNAL_NAMESPACE;
template <class T> void use_c05 (Matrix44<T> &a, Matrix44<T> &b, Matrix33<T> &c, Matrix33<T> &d, Matrix22<T> &e, Matrix22<T> &f,
                                 Vec3<T> &v, Vec4<T> &w, Vec2<T> &p, Quat<T> &q, T &s)
{
    a = a * b; a *= b; Matrix44<T>::multiply (a, b, a); a = Matrix44<T>::multiply (a, b); c = c * d; c *= d; e = e * f; e *= f;
    s = a.determinant (); s = c.determinant (); s = e.determinant (); s = a.trace (); s = c.trace (); s = e.trace ();
    s = a.minorOf (1, 2); s = a.fastMinor (0, 1, 2, 0, 1, 2); s = c.minorOf (1, 1); s = c.fastMinor (0, 1, 0, 1);
    a.transpose (); a = a.transposed (); c.transpose (); c = c.transposed (); e.transpose (); e = e.transposed ();
    v = v * a; v *= a; a.multVecMatrix (v, v); a.multDirMatrix (v, v); w = w * a; w *= a;
    p = p * c; p *= c; c.multVecMatrix (p, p); c.multDirMatrix (p, p); v = v * c; v *= c; p = p * e; p *= e;
    s = v.dot (v); s = v ^ v; v = v.cross (v); v = v % v; v %= v; s = p.cross (p); s = p % p; s = p.dot (p); s = p ^ p; s = w.dot (w); s = w ^ w;
    q = q * q; q *= q;
    c = outerProduct (v, v); a = outerProduct (w, w);
}
template void use_c05<unsigned> (Matrix44<unsigned> &, Matrix44<unsigned> &, Matrix33<unsigned> &, Matrix33<unsigned> &, Matrix22<unsigned> &, Matrix22<unsigned> &, Vec3<unsigned> &, Vec4<unsigned> &, Vec2<unsigned> &, Quat<unsigned> &, unsigned &);
template void use_c05<float> (Matrix44<float> &, Matrix44<float> &, Matrix33<float> &, Matrix33<float> &, Matrix22<float> &, Matrix22<float> &, Vec3<float> &, Vec4<float> &, Vec2<float> &, Quat<float> &, float &);
template void use_c05<double> (Matrix44<double> &, Matrix44<double> &, Matrix33<double> &, Matrix33<double> &, Matrix22<double> &, Matrix22<double> &, Vec3<double> &, Vec4<double> &, Vec2<double> &, Quat<double> &, double &);
'''


def specs(T):
    M = lambda n: "Matrix%d%d<%s>" % (n, n, T)
    V = lambda n: "Vec%d<%s>" % (n, T)
    Q = "Quat<%s>" % T
    d = {}
    for n in (2, 3, 4):
        d["mm%d%d" % (n, n)] = "%s::operator*(const %s &) const" % (M(n), M(n))
        d["mmeq%d%d" % (n, n)] = "%s::operator*=(const %s &)" % (M(n), M(n))
        d["tr%d%d" % (n, n)] = "%s::transposed() const" % M(n)
        d["tri%d%d" % (n, n)] = "%s::transpose()" % M(n)
        d["trace%d%d" % (n, n)] = "%s::trace() const" % M(n)
        d["det%d%d" % (n, n)] = "%s::determinant() const" % M(n)
        d["dot%d" % n] = "%s::dot(const %s &) const" % (V(n), V(n))
        d["dotop%d" % n] = "%s::operator^(const %s &) const" % (V(n), V(n))
    d["multiply3"] = "%s::multiply(const %s &, const %s &, %s &)" % (M(4), M(4), M(4), M(4))
    d["multiply2"] = "%s::multiply(const %s &, const %s &)" % (M(4), M(4), M(4))
    d["minor33"] = "%s::minorOf(const int, const int) const" % M(3)
    d["minor44"] = "%s::minorOf(const int, const int) const" % M(4)
    d["fastminor33"] = "%s::fastMinor(const int, const int, const int, const int) const" % M(3)
    d["fastminor44"] = "%s::fastMinor(const int, const int, const int, const int, const int, const int) const" % M(4)
    d["cross2"] = "%s::cross(const %s &) const" % (V(2), V(2))
    d["crossop2"] = "%s::operator%%(const %s &) const" % (V(2), V(2))
    d["cross3"] = "%s::cross(const %s &) const" % (V(3), V(3))
    d["crossop3"] = "%s::operator%%(const %s &) const" % (V(3), V(3))
    d["crosseq3"] = "%s::operator%%=(const %s &)" % (V(3), V(3))
    d["qmul"] = "operator*<%s>(const %s &, const %s &)" % (T, Q, Q)
    d["qmuleq"] = "%s::operator*=(const %s &)" % (Q, Q)
    d["outer3"] = "outerProduct<%s>(const %s &, const %s &)" % (T, V(3), V(3))
    d["outer4"] = "outerProduct<%s>(const %s &, const %s &)" % (T, V(4), V(4))
    d["v4m44"] = "operator*<%s,%s>(const %s &, const %s &)" % (T, T, V(4), M(4))
    d["v4m44eq"] = "operator*=<%s,%s>(%s &, const %s &)" % (T, T, V(4), M(4))
    d["v3m33"] = "operator*<%s,%s>(const %s &, const %s &)" % (T, T, V(3), M(3))
    d["v3m33eq"] = "operator*=<%s,%s>(%s &, const %s &)" % (T, T, V(3), M(3))
    d["v2m22"] = "operator*<%s,%s>(const %s &, const %s &)" % (T, T, V(2), M(2))
    d["v2m22eq"] = "operator*=<%s,%s>(%s &, const %s &)" % (T, T, V(2), M(2))
    d["v3m44"] = "operator*<%s,%s>(const %s &, const %s &)" % (T, T, V(3), M(4))
    d["v3m44eq"] = "operator*=<%s,%s>(%s &, const %s &)" % (T, T, V(3), M(4))
    d["v2m33"] = "operator*<%s,%s>(const %s &, const %s &)" % (T, T, V(2), M(3))
    d["v2m33eq"] = "operator*=<%s,%s>(%s &, const %s &)" % (T, T, V(2), M(3))
    d["mvm44"] = "%s::multVecMatrix(const %s &, %s &) const" % (M(4), V(3), V(3))
    d["mdm44"] = "%s::multDirMatrix(const %s &, %s &) const" % (M(4), V(3), V(3))
    d["mvm33"] = "%s::multVecMatrix(const %s &, %s &) const" % (M(3), V(2), V(2))
    d["mdm33"] = "%s::multDirMatrix(const %s &, %s &) const" % (M(3), V(2), V(2))
    return d


ALIAS2 = {"mm22", "mm33", "mm44", "mmeq22", "mmeq33", "mmeq44", "dot2", "dot3", "dot4", "cross3", "crosseq3", "qmul", "qmuleq",
          "mvm44", "mdm44", "mvm33", "mdm33"}
EXTRACTION = {}


def same_shape(ex, su, sf, sd):
    """static supporting fact for the RING -> float transfer: the emitted bodies of the unsigned,
    float and double instantiations are identical after renaming the element type"""
    txt = open(ex.c_path).read()
    bodies = {}
    for m in re.finditer(r"/\* (.*?)  \[.*?\] \*/\n(.*?)\n}\n", txt, re.S):
        bodies[m.group(1)] = m.group(2)
    inv = {}
    bad, n = [], 0

    def norm(b, T, tag):
        b = b.replace(T, "T").replace("_%s" % tag, "_T")
        b = re.sub(r"\(\(T \)(\d+)\)", r"LIT(\1)", b)
        b = re.sub(r"\(\(T \)(\d+)\.0\)", r"LIT(\1)", b)
        return b
    key = {v: k for k, v in ex.names.items()}
    for alias, s in su.items():
        ku = "%s" % s
        fu, ff, fd = ex.names.get(su[alias]), ex.names.get(sf[alias]), ex.names.get(sd[alias])
        bu = next((b for k, b in bodies.items() if re.sub(r"\s", "", k) == re.sub(r"\s", "", su[alias])), None)
        bf = next((b for k, b in bodies.items() if re.sub(r"\s", "", k) == re.sub(r"\s", "", sf[alias])), None)
        bd = next((b for k, b in bodies.items() if re.sub(r"\s", "", k) == re.sub(r"\s", "", sd[alias])), None)
        if bu is None or bf is None or bd is None:
            bad.append(alias + ": body not found")
            continue
        n += 1
        a, b, c = norm(bu, "unsigned int", "uint"), norm(bf, "float", "float"), norm(bd, "double", "double")
        if not (a == b == c):
            bad.append(alias)
    return {"compared": n, "differing": bad}


def units(tier):
    su, sf, sd = specs(U), specs("float"), specs("double")
    wanted = sorted(set(su.values()) | set(sf.values()) | set(sd.values()))
    ex = extract.run_extraction("c05x", DRIVER, wanted, outdir=GEN)
    names = ["/* generated: alias -> extracted function (T = unsigned int) */"]
    for a, s in su.items():
        names.append("#define F_%s %s" % (a, ex.names[s]))
    p = os.path.join(GEN, "c05_names.h")
    txt = "\n".join(names) + "\n"
    if not os.path.exists(p) or open(p).read() != txt:
        open(p, "w").write(txt)
    namesf = ["/* generated: alias -> extracted function (T = float) */"] + ["#define G_%s %s" % (a, ex.names[s2]) for a, s2 in sf.items()]
    pf = os.path.join(GEN, "c05_names_f.h")
    tf = "\n".join(namesf) + "\n"
    if not os.path.exists(pf) or open(pf).read() != tf:
        open(pf, "w").write(tf)
    shape = same_shape(ex, su, sf, sd)
    EXTRACTION["c05x"] = {"functions": len(ex.order), "differential": {k: ex.diff.get(k) for k in ("tested", "cases")},
                          "skipped": ex.diff.get("skipped", []), "same_shape_unsigned_float_double": shape}
    rp = {"src": H, "lang": "c", "cxx": [ex.shim_cpp], "includes": [GEN] + ex.includes}
    us = []

    def add(name, entry, enforce=None, defines=(), clause="", fns=(), timeout=300):
        us.append(Unit("c05." + name, H, entry, enforce=[enforce] if enforce else [], includes=[GEN], backend="z3som",
                       mode="RING", defines=list(defines), functions=list(fns), clause=clause, no_checks=True,
                       cbmc_flags=["--unwind", "17", "--no-signed-overflow-check"], timeout=timeout, replay=rp,
                       assumptions=["RING: identity proved over Z/2^32 on the unsigned instantiation of the same template; "
                                    "transfer to float/double by the same-shape check plus the classical forward-error bound (not machine-checked)"]))
    for a, s in su.items():
        f = ex.names[s]
        if a in ("minor33", "minor44", "fastminor44"):
            n = 3 if a == "minor33" else 4
            rcs = [(r, c) for r in range(n) for c in range(n)]
            if tier == "quick":
                rcs = [(0, 0), (1, 2), (n - 1, n - 1), (2, 0)]
            for r, c in rcs:
                add("%s.r%dc%d" % (a, r, c), "h_" + a, f, ["VF_R=%d" % r, "VF_C=%d" % c], "%s with (r,c)=(%d,%d) equals the textbook minor" % (s, r, c), [s])
            continue
        aliases = (0, 1) if a in ALIAS2 else (0,)
        if a == "multiply3":
            aliases = (0, 1, 2)
        for al in aliases:
            add(a + (".alias%d" % al if al else ""), "h_" + a, f, ["VF_ALIAS=%d" % al],
                "%s equals its textbook sum of products%s" % (s, " (aliased operands)" if al else ""), [s])
    # spellings: relational lemmas over the real float instantiations, arithmetic uninterpreted (ABS)
    HR = os.path.join(VERIF, "harness", "c05_rel.c")
    for nm, fns in (("rel_mm22", ["mm22", "mmeq22"]), ("rel_mm33", ["mm33", "mmeq33"]), ("rel_mm44", ["mm44", "mmeq44", "multiply2", "multiply3"]),
                    ("rel_vecmat", ["v3m44", "v3m44eq", "mvm44"]), ("rel_vecmat33", ["v2m33", "v2m33eq", "mvm33"]),
                    ("rel_cross_dot", ["cross3", "crossop3", "crosseq3", "dot3", "dotop3", "cross2", "crossop2"]), ("rel_quat", ["qmul", "qmuleq"])):
        us.append(Unit("c05." + nm, HR, "h_" + nm, includes=[GEN], backend="cvc5", mode="ABS", defines=["CXX2C_ABS_ARITH"], functions=[sf[f] for f in fns], no_checks=True,
                       cbmc_flags=["--unwind", "17", "--no-signed-overflow-check", "--object-bits", "10"], timeout=600,
                       clause="spellings of the same product return identical results (float instantiation; + - * / uninterpreted, so identical for any arithmetic)",
                       replay={"src": HR, "lang": "c", "cxx": [ex.shim_cpp], "includes": [GEN] + ex.includes}))
    for n in (2, 3, 4):
        if n == 4:
            add("lemma.dettr4", "h_lemma_dettr4", clause="det(transpose A) == det(A), 4x4", fns=[su["det44"], su["tr44"]])
            continue   # det(A*B) == det(A)*det(B) at 4x4: z3's som rewriter runs out of memory (12 GB) - not claimed
        add("lemma.detmul%d" % n, "h_lemma_detmul%d" % n, clause="det(A*B) == det(A)*det(B), %dx%d" % (n, n), fns=[su["det%d%d" % (n, n)], su["mm%d%d" % (n, n)]], timeout=600)
        add("lemma.dettr%d" % n, "h_lemma_dettr%d" % n, clause="det(transpose A) == det(A), %dx%d" % (n, n), fns=[su["det%d%d" % (n, n)], su["tr%d%d" % (n, n)]])
    for n in (3, 4):
        rcs = [(r, c) for r in range(n) for c in range(n)] if tier == "thorough" else [(0, 0), (1, 2), (n - 1, 1)]
        for r, c in rcs:
            add("lemma.cofactor%d%d.r%dc%d" % (n, n, r, c), "h_lemma_cofactor%d%d" % (n, n), defines=["VF_R=%d" % r, "VF_C=%d" % c],
                clause="cofactor expansion by minorOf along row %d and column %d reproduces determinant()" % (r, c),
                fns=[su["minor%d%d" % (n, n)], su["det%d%d" % (n, n)]], timeout=600)
    return us


def extra_coverage(units, tier):
    return {"extraction": EXTRACTION}


NOT_COVERED = [
    "numeric size of the rounding bound ('within a rounding bound proportional to the sum of absolute products'): classical, not machine-checked",
    "det(A*B) == det(A)*det(B) for 4x4 (proved for 2x2 and 3x3; the 4x4 expansion exhausts z3's sum-of-monomials rewriter)",
]
ASSUMPTIONS = [
    "RING mode: identities are proved over Z/2^32 on the template instantiated at unsigned int; multilinear identities with small coefficients that hold on all of (Z/2^32)^n hold over Z",
    "homogeneous divide: unsigned integer division stands for the division (numerator and denominator polynomials are what is compared)",
    "cxx2c extraction rules; extracted C differentially validated natively against the real C++",
]
