#!/usr/bin/env python3
"""Core of the /verif machinery: build goto binaries from harnesses, enforce
contracts with goto-instrument --dfcc, discharge with cbmc (SAT / cvc5 / z3 som),
collect per-obligation results, write evidence, report violations with replay.

Exit codes of a check: 0 all obligations discharged, 1 violation (VIOLATION line
printed), 2 undecided (tool limit, timeout, extraction failure) - never a
violation.
"""
import concurrent.futures as cf
import hashlib
import json
import os
import re
import resource
import shutil
import subprocess
import sys
import time

VERIF = os.path.dirname(os.path.dirname(os.path.abspath(__file__)))
REPO = os.environ.get("VERIF_REPO", "/repo")
# runs against a scratch repository (seedsuite / harmlesssuite / VERIF_REPO=...) get their own build directory, so that they can run
# side by side with each other and with checks of /repo itself without overwriting generated files
BUILD = os.path.join(VERIF, "build") if REPO == "/repo" else os.path.join(VERIF, "build", "scratch_" + re.sub(r"[^A-Za-z0-9_]", "_", REPO.strip("/")))
REPLAY = os.path.join(VERIF, "replay") if REPO == "/repo" else os.path.join(BUILD, "replay")
GUARD = "IMATH_VERIF"
JOBS = int(os.environ.get("VERIF_JOBS", "16"))


CANARY_DESC = "VF_CANARY"


class Undecided(Exception):
    pass


def sh(cmd, timeout=None, mem_gb=None, cwd=None, stdin=None):
    """Run a command (list). Returns (rc, stdout, stderr, seconds). rc=-9 on timeout."""
    def lim():
        if mem_gb:
            b = int(mem_gb * (1 << 30))
            resource.setrlimit(resource.RLIMIT_AS, (b, b))
        os.setsid()
    t0 = time.time()
    try:
        p = subprocess.Popen(cmd, stdout=subprocess.PIPE, stderr=subprocess.PIPE,
                             stdin=subprocess.PIPE if stdin is not None else subprocess.DEVNULL,
                             cwd=cwd, preexec_fn=lim, text=True, errors="replace")
        try:
            out, err = p.communicate(stdin, timeout=timeout)
        except subprocess.TimeoutExpired:
            try:
                os.killpg(p.pid, 9)
            except Exception:
                pass
            out, err = p.communicate()
            return -9, out, err, time.time() - t0
        return p.returncode, out, err, time.time() - t0
    except FileNotFoundError as e:
        return 127, "", str(e), 0.0


# --------------------------------------------------------------------------
# ImathConfig.h regenerated from the working tree's template on every run
# --------------------------------------------------------------------------
CONFIG_VARS = {
    "IMATH_HALF_USE_LOOKUP_TABLE": True,
    "IMATH_HAVE_LARGE_STACK": False,
    "IMATH_NAMESPACE_CUSTOM": "0",
    "IMATH_INTERNAL_NAMESPACE": "Imath_3_2",
    "IMATH_NAMESPACE": "Imath",
    "IMATH_VERSION": "3.2.0",
    "IMATH_PACKAGE_NAME": "Imath 3.2.0-dev",
    "Imath_VERSION_MAJOR": "3", "Imath_VERSION_MINOR": "2", "Imath_VERSION_PATCH": "0",
    "IMATH_VERSION_RELEASE_TYPE": "-dev",
    "IMATH_LIB_VERSION": "30.3.2.0",
    "IMATH_USE_NOEXCEPT": True,
    "IMATH_ENABLE_API_VISIBILITY": True,
}


def make_config():
    """Instantiate /repo/config/ImathConfig.h.in the way config/CMakeLists.txt does
    with the default options (lookup table ON, noexcept ON).  The option default for
    the lookup table is read from the working tree's CMake files."""
    src = os.path.join(REPO, "config", "ImathConfig.h.in")
    outdir = os.path.join(BUILD, "config")
    os.makedirs(outdir, exist_ok=True)
    vars_ = dict(CONFIG_VARS)
    # option default from the tree
    for cm in ("CMakeLists.txt", "config/CMakeLists.txt", "cmake/ImathSetup.cmake",
               "config/ImathSetup.cmake"):
        p = os.path.join(REPO, cm)
        if os.path.exists(p):
            m = re.search(r"option\s*\(\s*IMATH_HALF_USE_LOOKUP_TABLE\s+\"[^\"]*\"\s+(\w+)", open(p).read())
            if m:
                vars_["IMATH_HALF_USE_LOOKUP_TABLE"] = m.group(1).upper() in ("ON", "TRUE", "1", "YES")
    out = []
    for line in open(src):
        m = re.match(r"\s*#\s*cmakedefine01\s+(\w+)", line)
        if m:
            out.append("#define %s %d\n" % (m.group(1), 1 if vars_.get(m.group(1)) else 0))
            continue
        m = re.match(r"\s*#\s*cmakedefine\s+(\w+)", line)
        if m:
            if vars_.get(m.group(1)):
                out.append("#define %s\n" % m.group(1))
            else:
                out.append("/* #undef %s */\n" % m.group(1))
            continue
        line = re.sub(r"@(\w+)@", lambda mm: str(vars_.get(mm.group(1), "")), line)
        out.append(line)
    txt = "".join(out)
    p = os.path.join(outdir, "ImathConfig.h")
    if not os.path.exists(p) or open(p).read() != txt:
        open(p, "w").write(txt)
    return outdir


def std_includes():
    return ["-I" + os.path.join(VERIF, "stubs"), "-I" + os.path.join(VERIF, "spec"),
            "-I" + os.path.join(VERIF, "contracts"), "-I" + os.path.join(VERIF, "harness"),
            "-I" + os.path.join(REPO, "src", "Imath"), "-I" + make_config()]


# --------------------------------------------------------------------------
# Units
# --------------------------------------------------------------------------
class Unit:
    """One verifier run: a harness entry, the contracts enforced / used."""

    def __init__(self, name, src, entry, enforce=(), replace=(), defines=(), includes=(),
                 cbmc_flags=(), backend="sat", loop_contracts=False, bounded=None,
                 timeout=None, functions=(), mode="BIT", replay=None, note="",
                 clause="", canary=True, mem_gb=None, object_bits=None, assumptions=(),
                 tier="quick", no_checks=False, expect_fail=None, best_effort=False):
        self.name = name
        self.src = src
        self.entry = entry
        self.enforce = list(enforce)
        self.replace = list(replace)
        self.defines = list(defines)
        self.includes = list(includes)
        self.cbmc_flags = list(cbmc_flags)
        self.backend = backend
        self.loop_contracts = loop_contracts
        self.bounded = bounded
        self.timeout = timeout or 180
        self.functions = list(functions)
        self.mode = mode
        self.replay = replay
        self.note = note
        self.clause = clause
        self.canary = canary
        self.mem_gb = mem_gb
        self.object_bits = object_bits
        self.assumptions = list(assumptions)
        self.tier = tier
        self.no_checks = no_checks
        self.best_effort = best_effort  # a timeout is recorded as 'not decided' instead of making the check undecided (refutation search only)
        self.expect_fail = expect_fail  # property-description substring that MUST fail (canary units)
        # results
        self.status = None      # 'pass' | 'fail' | 'undecided'
        self.reason = ""
        self.obligations = []   # dicts
        self.seconds = 0.0
        self.cmds = []
        self.failed = []
        self.inputs = {}
        self.raw = ""


SAFETY_FLAGS = ["--bounds-check", "--pointer-check", "--div-by-zero-check",
                "--signed-overflow-check", "--undefined-shift-check",
                "--conversion-check"]


def _goto_cc(u, bdir):
    out = os.path.join(bdir, u.name + ".0.gb")
    cmd = ["goto-cc", "-D" + GUARD, "-DVF_ENTRY=" + u.entry] + ["-D" + d for d in u.defines] \
        + std_includes() + ["-I" + i for i in u.includes] \
        + ["--function", u.entry, u.src, "-o", out]
    rc, so, se, dt = sh(cmd, timeout=600)
    u.cmds.append(" ".join(cmd))
    if rc != 0:
        raise Undecided("goto-cc failed: " + (se or so)[-1500:])
    return out


def _instrument(u, gb, bdir):
    cur = gb
    if not (u.enforce or u.replace or u.loop_contracts):
        # keep only what the harness reaches, so obligations of other harnesses in the same file
        # are not listed (and cannot be misjudged) for this unit
        out = os.path.join(bdir, u.name + ".1.gb")
        rc, so, se, dt = sh(["goto-instrument", "--drop-unused-functions", cur, out], timeout=300)
        if rc == 0 and os.path.exists(out):
            cur = out
    if u.enforce or u.replace or u.loop_contracts:
        out = os.path.join(bdir, u.name + ".1.gb")
        cmd = ["goto-instrument", "--dfcc", u.entry]
        for f in u.enforce:
            cmd += ["--enforce-contract", f]
        for f in u.replace:
            cmd += ["--replace-call-with-contract", f]
        if u.loop_contracts:
            cmd += ["--apply-loop-contracts"]
        cmd += [cur, out]
        rc, so, se, dt = sh(cmd, timeout=900, mem_gb=u.mem_gb or 16)
        u.cmds.append(" ".join(cmd))
        log = so + se
        if rc != 0:
            raise Undecided("goto-instrument failed: " + log[-2000:])
        for bad in ("ignoring forall", "ignoring exists"):
            if bad in log:
                raise Undecided("instrumentation log contains '%s'" % bad)
        cur = out
    return cur


def _cbmc_base(u):
    flags = [] if u.no_checks else list(SAFETY_FLAGS)
    flags += u.cbmc_flags
    if u.object_bits:
        flags += ["--object-bits", str(u.object_bits)]
    return flags


def _parse_json(out):
    try:
        data = json.loads(out)
    except Exception:
        # cbmc may have been killed mid-way
        return None, None, "unparsable output"
    results, msgs, status = None, [], None
    for x in data:
        if "result" in x:
            results = x["result"]
        if "cProverStatus" in x:
            status = x["cProverStatus"]
        if "messageText" in x:
            msgs.append(x["messageText"])
    return results, status, "\n".join(msgs)


def _leafs(prefix, val, acc):
    if not isinstance(val, dict):
        return
    if "members" in val:
        for m in val["members"]:
            _leafs(prefix + "." + m.get("name", "?"), m.get("value"), acc)
    elif "elements" in val:
        for e in val["elements"]:
            _leafs("%s[%s]" % (prefix, e.get("index")), e.get("value"), acc)
    elif "binary" in val:
        acc[prefix] = {"binary": val["binary"], "data": val.get("data"),
                       "type": val.get("type")}
    elif "data" in val:
        acc[prefix] = {"data": val.get("data"), "type": val.get("type")}


def _inputs_from_trace(trace, entry):
    """Last assignment to every in_* variable (harness inputs by convention)."""
    acc = {}
    for s in trace or []:
        if s.get("stepType") != "assignment":
            continue
        lhs = s.get("lhs", "")
        if not lhs.startswith("in_"):
            continue
        _leafs(lhs, s.get("value"), acc)
    return acc


def _backend_flags(u):
    if u.backend == "cvc5":
        return ["--cvc5"]
    if u.backend == "z3":
        return ["--z3"]
    if u.backend == "kissat":
        return ["--external-sat-solver", "kissat"]
    if u.backend == "sat":
        return []
    raise Undecided("unknown backend " + u.backend)


def _run_cbmc_direct(u, gb):
    cmd = ["cbmc", gb, "--json-ui"] + _cbmc_base(u) + _backend_flags(u)
    u.cmds.append(" ".join(cmd))
    rc, so, se, dt = sh(cmd, timeout=u.timeout, mem_gb=u.mem_gb or 12)
    u.raw = so[-20000:] if len(so) > 20000 else so
    if rc == -9:
        raise Undecided("timeout after %ss (%s)" % (u.timeout, u.backend))
    results, status, msgs = _parse_json(so)
    if results is None:
        raise Undecided("cbmc gave no result (rc=%s): %s %s" % (rc, (msgs or "")[-1500:], se[-500:]))
    for bad in ("ignoring forall", "ignoring exists", "Parse Error", "unsupported"):
        if bad in (msgs or ""):
            raise Undecided("cbmc log contains '%s'" % bad)
    # counterexample for the first genuinely failed obligation (not the canary)
    for r in results:
        d = r.get("description", "")
        if r.get("status") == "FAILURE" and CANARY_DESC not in d and not (u.expect_fail and u.expect_fail in d):
            cmd2 = ["cbmc", gb, "--json-ui", "--trace", "--property", r["property"]] + _cbmc_base(u) + _backend_flags(u)
            rc2, so2, se2, dt2 = sh(cmd2, timeout=u.timeout, mem_gb=u.mem_gb or 12)
            res2, _, _ = _parse_json(so2) if rc2 != -9 else (None, None, None)
            for r2 in res2 or []:
                if r2.get("property") == r["property"] and "trace" in r2:
                    r["trace"] = r2["trace"]
            u.raw = (so2[-20000:] if rc2 != -9 else u.raw)
            break
    return results


# z3 'som' route for polynomial identities -----------------------------------
Z3SOM_TACTIC = ("(check-sat-using (then (using-params simplify :som true :som_blowup 1000000 :flat true) "
                "solve-eqs (using-params simplify :som true :som_blowup 1000000) cofactor-term-ite "
                "(using-params simplify :som true :som_blowup 1000000) smt))\n")


def _run_cbmc_z3som(u, gb, bdir):
    """Polynomial-identity obligations (postconditions and harness assertions) go, one SMT file
    each, through cbmc --z3 --outfile and z3-new with the sum-of-monomials rewriter; all other
    obligations of the unit (pointer, bounds, frame ...) are discharged by a normal cbmc run."""
    rc, so, se, dt = sh(["cbmc", gb, "--show-properties", "--json-ui"] + _cbmc_base(u), timeout=300)
    props = []
    try:
        for x in json.loads(so):
            if "properties" in x:
                props = x["properties"]
    except Exception:
        raise Undecided("cannot list properties: " + (so + se)[-300:])
    ring = [p for p in props if (".postcondition." in p["name"] or ".assertion." in p["name"] or ".division-by-zero." in p["name"])
            and not p["name"].startswith("__CPROVER") and CANARY_DESC not in p.get("description", "")]
    rest = [p for p in props if p not in ring]
    results = []
    if rest:
        cmd = ["cbmc", gb, "--json-ui"] + _cbmc_base(u)
        for p in rest:
            cmd += ["--property", p["name"]]
        rc, so, se, dt = sh(cmd, timeout=u.timeout, mem_gb=u.mem_gb or 12)
        u.cmds.append(" ".join(cmd[:6]) + " ... (%d --property selections)" % len(rest))
        if rc == -9:
            raise Undecided("timeout on the non-ring obligations")
        res, status, msgs = _parse_json(so)
        if res is None:
            raise Undecided("cbmc gave no result on the non-ring obligations: " + (msgs or "")[-500:])
        names = {p["name"] for p in rest}
        results += [r for r in res if r.get("property") in names]
    for p in ring:
        name = p["name"]
        # cheap attempt first: obligations that symex/SAT settle at once (unreachable, trivial) never
        # reach the som route, so a degenerate formula cannot be misread as a refutation
        cmd0 = ["cbmc", gb, "--json-ui", "--property", name] + _cbmc_base(u)
        rc0, so0, se0, dt0 = sh(cmd0, timeout=4, mem_gb=u.mem_gb or 12)
        if rc0 != -9:
            res0, _, _ = _parse_json(so0)
            hit = [r for r in (res0 or []) if r.get("property") == name]
            if hit and hit[0].get("status") in ("SUCCESS", "FAILURE"):
                hit[0]["backend"] = "sat"
                results.append(hit[0])
                continue
        smt = os.path.join(bdir, u.name + "." + re.sub(r"[^A-Za-z0-9_.]", "_", name) + ".smt2")
        if os.path.exists(smt):
            os.remove(smt)
        cmd = ["cbmc", gb, "--z3", "--outfile", smt, "--property", name] + _cbmc_base(u)
        rc, so, se, dt = sh(cmd, timeout=u.timeout, mem_gb=u.mem_gb or 12)
        u.cmds.append(" ".join(cmd))
        if rc == -9:
            raise Undecided("timeout generating smt for " + name)
        rec = {"property": name, "description": p.get("description", ""), "sourceLocation": p.get("sourceLocation")}
        if not os.path.exists(smt):
            if "VERIFICATION SUCCESSFUL" in so:
                rec.update(status="SUCCESS", backend="cbmc-simplifier")
                results.append(rec)
                continue
            raise Undecided("no smt file for %s: %s" % (name, (so + se)[-800:]))
        txt = open(smt).read()
        txt = _normalise_fp_zero_guards(txt, u, bdir)
        txt = re.sub(r"\(check-sat\)", "", txt)
        txt = re.sub(r"\(get-value [^\n]*\n", "", txt)
        txt = re.sub(r"\(get-model\)", "", txt)
        txt = re.sub(r"\(exit\)", "", txt)
        txt += Z3SOM_TACTIC
        open(smt, "w").write(txt)
        cmd2 = ["z3-new", "-T:%d" % int(u.timeout or 120), smt]
        u.cmds.append(" ".join(cmd2))
        # the installed z3 4.8.12 is tried first for 30 s with the same tactic: its solve-eqs eliminates chained definitions that end up
        # inside uninterpreted-function arguments, which z3 5.1's does not; only 'unsat' is taken from it
        rcx, sox, sex, dtx = sh(["z3", "-T:30", smt], timeout=40, mem_gb=u.mem_gb or 12)
        if sox.strip().split("\n")[0:1] == ["unsat"]:
            rec.update(status="SUCCESS", backend="z3 4.8.12 som")
            results.append(rec)
            try:
                os.remove(smt)
            except OSError:
                pass
            continue
        rc, so2, se2, dt2 = sh(cmd2, timeout=(u.timeout or 120) + 10, mem_gb=u.mem_gb or 12)
        first = so2.strip().split("\n")[0] if so2.strip() else ""
        if first == "unsat":
            rec.update(status="SUCCESS", backend="z3-new som")
        elif first == "sat":
            # guard against a degenerate formula (obligation unreachable / settled by symex): give the
            # plain SAT run a longer chance to contradict z3 before the refutation is accepted
            rc0, so0, se0, dt0 = sh(cmd0, timeout=60, mem_gb=u.mem_gb or 12)
            if rc0 != -9:
                res0, _, _ = _parse_json(so0)
                hit = [r for r in (res0 or []) if r.get("property") == name]
                if hit and hit[0].get("status") == "SUCCESS":
                    hit[0]["backend"] = "sat"
                    results.append(hit[0])
                    continue
            # ask for the values of the harness inputs
            syms = sorted(set(re.findall(r"\(declare-fun (\|[^|]*::in_[^|]*\|) \(\) \(_ BitVec \d+\)\)", txt)))
            open(smt, "a").write("(get-value (%s))\n" % " ".join(syms) if syms else "(get-model)\n")
            rc, so3, se3, dt3 = sh(cmd2, timeout=(u.timeout or 120) + 10, mem_gb=u.mem_gb or 12)
            rec.update(status="FAILURE", backend="z3-new som", model=so3[:200000])
        else:
            raise Undecided("z3-new on %s: %s" % (name, (so2 + se2)[:300]))
        results.append(rec)
        try:
            os.remove(smt)
        except OSError:
            pass
    return results


_GUARD_LEMMAS = {}


def _normalise_fp_zero_guards(txt, u, bdir):
    """Code such as Matrix44::determinant tests 'x != 0.' on the element type; on the integer
    instantiation cbmc bit-blasts that into (ieee_float_notequal (typecast_uN->f64 X) 0), which hides
    the ring structure from the som rewriter.  Each distinct guard shape is replaced by (not (= X 0))
    AFTER the equivalence 'for every X: guard(X) == (X != 0)' has been discharged by z3 on the very
    function definitions cbmc put in this file (a machine-checked rewriting step, not an assumption)."""
    pat = re.compile(r"\((float_bv\.ieee_float_(notequal|equal)_f(\d+)_(\d+)->b) \((float_bv\.floatbv_typecast_([us])(\d+)->f\d+_\d+) (\|[^|]*\|) \(_ bv0 32\)\) \(_ bv0 (\d+)\)\)")
    kinds = {}
    for m in pat.finditer(txt):
        kinds[(m.group(1), m.group(5))] = m
    for (cmpf, castf), m in kinds.items():
        key = (cmpf, castf)
        if key not in _GUARD_LEMMAS:
            defs = []
            for fn in (cmpf, castf):
                dm = re.search(r"^\(define-fun " + re.escape(fn) + r" .*$", txt, re.M)
                if not dm:
                    raise Undecided("guard lemma: definition of %s not found" % fn)
                defs.append(dm.group(0))
            w = int(m.group(7))
            fw = int(m.group(9))
            neq = "(not (= X (_ bv0 %d)))" % w
            rhs = neq if m.group(2) == "notequal" else "(= X (_ bv0 %d))" % w
            lemma = "\n".join(defs) + "\n(declare-const X (_ BitVec %d))\n(assert (not (= (%s (%s X (_ bv0 32)) (_ bv0 %d)) %s)))\n(check-sat)\n" % (w, cmpf, castf, fw, rhs)
            lp = os.path.join(bdir, u.name + ".guardlemma.smt2")
            open(lp, "w").write(lemma)
            rc, so, se, dt = sh(["z3-new", "-T:120", lp], timeout=130)
            os.remove(lp)
            _GUARD_LEMMAS[key] = so.strip().split("\n")[0] == "unsat"
        if not _GUARD_LEMMAS[key]:
            raise Undecided("guard lemma for %s/%s not discharged" % key)

    def sub(m):
        w = int(m.group(7))
        return "(not (= %s (_ bv0 %d)))" % (m.group(8), w) if m.group(2) == "notequal" else "(= %s (_ bv0 %d))" % (m.group(8), w)
    if kinds:
        txt = pat.sub(sub, txt)
        u.note = (u.note + "; " if u.note else "") + "fp-zero guards rewritten to integer tests after discharging the equivalence lemma (%d shapes)" % len(kinds)
    return txt


def _inputs_from_model(model):
    """harness inputs in_* from z3's (get-value ...) answer for cbmc's SMT encoding"""
    acc = {}
    pat = re.compile(r"\(\|[^\s|]*?::(in_[A-Za-z0-9_]+)![0-9@#!]*((?:\[\[[0-9A-Fa-f]+\]\])*)\|\s+#([xb])([0-9a-fA-F]+)\)")
    for m in pat.finditer(model):
        # cbmc prints array cell indices in hexadecimal
        name = m.group(1) + "".join("[%d]" % int(k, 16) for k in re.findall(r"\[\[([0-9A-Fa-f]+)\]\]", m.group(2)))
        digits = m.group(4)
        w = len(digits) * (4 if m.group(3) == "x" else 1)
        v = int(digits, 16 if m.group(3) == "x" else 2)
        acc.setdefault(name, {"binary": format(v, "0%db" % w), "data": str(v), "type": "bv%d" % w})
    return acc


def run_unit(u, bdir):
    t0 = time.time()
    try:
        gb = _goto_cc(u, bdir)
        gb2 = _instrument(u, gb, bdir)
        if u.backend == "z3som":
            results = _run_cbmc_z3som(u, gb2, bdir)
        else:
            results = _run_cbmc_direct(u, gb2)
        for f in (gb, gb2):
            try:
                os.remove(f)
            except OSError:
                pass
        canary_seen = canary_failed = False
        u.obligations = []
        u.failed = []
        unknown = []
        for r in results:
            desc = r.get("description", "")
            st = r.get("status")
            if CANARY_DESC in desc:
                canary_seen = True
                if st == "FAILURE":
                    canary_failed = True
                continue
            if u.expect_fail and u.expect_fail in desc:
                # negated clause that must be refutable
                canary_seen = True
                if st == "FAILURE":
                    canary_failed = True
                continue
            loc = r.get("sourceLocation") or {}
            ob = {"unit": u.name, "property": r.get("property"), "description": desc,
                  "status": st, "function": loc.get("function"), "file": loc.get("file"),
                  "line": loc.get("line")}
            u.obligations.append(ob)
            if st == "FAILURE" and ("unwinding assertion" in desc or (r.get("property") or "").split(".")[-2:-1] == ["unwind"]):
                raise Undecided("unwinding bound too small: %s" % r.get("property"))
            if st == "FAILURE":
                u.failed.append(ob)
                if "trace" in r and not u.inputs:
                    u.inputs = _inputs_from_trace(r["trace"], u.entry)
                    ob["inputs"] = u.inputs
                if "model" in r:
                    ob["model"] = r["model"][:4000]
                    if not u.inputs:
                        u.inputs = _inputs_from_model(r["model"])
            elif st != "SUCCESS":
                unknown.append((r.get("property"), st))
        if unknown and not u.failed:
            raise Undecided("obligation %s has status %s" % unknown[0])
        if u.failed:
            # a refuted obligation decides the unit; cbmc leaves the obligations it did not get to (after an error path
            # ends the run early) as UNKNOWN - they are recorded, not counted
            u.undecided_obligations = unknown
            for ob in u.obligations:
                if ob["status"] not in ("SUCCESS", "FAILURE"):
                    ob["status"] = "UNKNOWN (not reached: another obligation of this unit was refuted first)"
        if u.canary and not (u.failed and unknown):
            if not canary_seen:
                raise Undecided("canary assertion missing from results (harness generated no reachable end)")
            if not canary_failed:
                raise Undecided("canary assertion did not fail: assumptions/requires are vacuous")
        if not u.obligations:
            raise Undecided("zero obligations generated")
        if u.enforce:
            # each enforced function must have at least one postcondition obligation
            for f in u.enforce:
                if not any(("postcondition" in (o["property"] or "")) or ("ensures" in o["description"])
                           for o in u.obligations):
                    raise Undecided("no postcondition obligation generated for " + f)
        if u.loop_contracts:
            if not any("loop invariant" in o["description"].lower() or "loop_invariant" in (o["property"] or "")
                       for o in u.obligations):
                raise Undecided("loop contract was dropped (no loop invariant obligations)")
        u.status = "fail" if u.failed else "pass"
    except Undecided as e:
        u.status = "undecided"
        u.reason = str(e)
        if u.best_effort and "timeout" in u.reason:
            u.status = "skipped"
    u.seconds = time.time() - t0
    return u


def run_units(units, bdir, jobs=JOBS):
    os.makedirs(bdir, exist_ok=True)
    make_config()
    with cf.ThreadPoolExecutor(max_workers=jobs) as ex:
        futs = [ex.submit(run_unit, u, bdir) for u in units]
        for f in cf.as_completed(futs):
            u = f.result()
            tag = {"pass": "ok  ", "fail": "FAIL", "undecided": "??  ", "skipped": "--  "}[u.status]
            print("  [%s] %-44s %3d obligations %6.1fs %s %s" % (
                tag, u.name, len(u.obligations), u.seconds, u.backend,
                ("- " + u.reason[:300]) if u.reason else ""), flush=True)
    return units


# --------------------------------------------------------------------------
# Known findings
# --------------------------------------------------------------------------
def load_known():
    p = os.path.join(VERIF, "known_findings.jsonl")
    known = []
    if os.path.exists(p):
        for line in open(p):
            line = line.strip()
            if not line or line.startswith("#"):
                continue
            try:
                known.append(json.loads(line))
            except Exception:
                pass
    return known


def match_known(known, prop, u, ob):
    for k in known:
        if k.get("status") != "open":
            continue
        if k.get("property") != prop:
            continue
        if k.get("unit") == u.name and (k.get("obligation") in (None, ob["property"])
                                        or k.get("obligation_desc", "\0") in ob["description"]):
            return k
    return None


# --------------------------------------------------------------------------
# Replay
# --------------------------------------------------------------------------
def native_replay(u, inputs, outdir, tag):
    """u.replay = dict(src=C/C++ harness, lang='c'|'c++', flags=[...], cxx=[C++ files that provide
    the real functions (shims)]).  The program receives 'name=binaryString' arguments and exits 1
    when the real code violates the concrete oracle on that input, 0 when not reproduced."""
    rp = u.replay
    if not rp:
        return None, "no native replay registered for this unit"
    exe = os.path.join(outdir, tag + ".replay.bin")
    incs = std_includes() + ["-I" + i for i in u.includes] + ["-I" + i for i in rp.get("includes", [])]
    defs = ["-DVF_NATIVE", "-DVF_ENTRY=" + u.entry] + ["-D" + d for d in u.defines]
    objs = []
    main_cc = ["g++", "-std=c++17"] if rp.get("lang", "c") == "c++" else ["gcc", "-std=gnu11"]
    srcs = [(main_cc, rp["src"])] + [(["g++", "-std=c++17", "-fno-access-control", "-I/usr/include/python3.11"], c) for c in rp.get("cxx", [])]
    for i, (cc, src) in enumerate(srcs):
        o = os.path.join(outdir, "%s.%d.o" % (tag, i))
        cmd = cc + ["-O0", "-w", "-ffp-contract=off"] + defs + incs + rp.get("flags", []) + ["-c", src, "-o", o]
        rc, so, se, dt = sh(cmd, timeout=900)
        if rc != 0:
            return None, "replay build failed: " + se[-1500:]
        objs.append(o)
    rc, so, se, dt = sh(["g++"] + objs + ["-o", exe, "-lm"] + rp.get("libs", []), timeout=300)
    for o in objs:
        try:
            os.remove(o)
        except OSError:
            pass
    if rc != 0:
        return None, "replay link failed: " + se[-1500:]
    args = ["%s=%s" % (k, v.get("binary") or v.get("data")) for k, v in sorted(inputs.items())]
    rc, so, se, dt = sh([exe] + args, timeout=120)
    out = (so + se)[-4000:]
    if rc in (0, 3) and u.mode in ("ABS", "RING") and inputs:   # 3 = the model's bit patterns fall outside the native harness assumptions
        # the model's values for the uninterpreted operations are not the real ones: search concrete inputs natively
        # (same harness, same oracle) so that the report can carry an input that fails on the real code
        found = _replay_search(exe, inputs)
        if found:
            rc, out = 1, out + "\nnot reproduced on the verifier's model inputs (abstract arithmetic); native search over %d random inputs found a failing one:\n%s\n%s" % (found[2], " ".join(found[0]), found[1])
    try:
        os.remove(exe)
    except OSError:
        pass
    return rc, out


def _replay_search(exe, inputs, tries=450):
    import random, struct
    rnd = random.Random(12345)
    rc, so, se, dt = sh([exe, "--types"], timeout=30)
    types = {}
    for l in so.splitlines():
        m = re.match(r"VF_TYPE (\S+) (.+) (\d+)$", l)
        if m:
            types[m.group(1)] = (m.group(2).strip(), int(m.group(3)) * 8)
    if not types:
        return None
    keys = sorted(types)
    model = inputs
    inputs = {k: {"type": types[k][0], "binary": "0" * types[k][1]} for k in keys}

    def keep(k):
        """first third of the tries keeps the model's structural values (0, 1, -1, flags) and randomises the rest, second third keeps each with probability 1/2, last third is fully random"""
        b = (model.get(k) or {}).get("binary")
        if not b or len(b) != types[k][1]:
            return None
        t = types[k][0]
        if t == "float" and b in ("0" * 32, "1" + "0" * 31, "00111111100000000000000000000000", "10111111100000000000000000000000"):
            return b
        if t == "double" and b in ("0" * 64, "1" + "0" * 63, "0011111111110000" + "0" * 48, "1011111111110000" + "0" * 48):
            return b
        if t not in ("float", "double") and (len(b) == 1 or int(b, 2) in (0, 1)):
            return b
        return None

    def isfloat(v):
        return v.get("type") in ("float", "double")

    def bits(x, w):
        return format(x & ((1 << w) - 1), "0%db" % w)
    for n in range(tries):
        args = []
        for k in keys:
            v = inputs[k]
            w = len(v.get("binary") or "") or 32
            kb = keep(k) if n < tries // 3 else (keep(k) if n < 2 * tries // 3 and rnd.random() < 0.5 else None)
            if kb is not None:
                args.append("%s=%s" % (k, kb))
                continue
            if isfloat(v) and w in (32, 64):
                f = rnd.choice([rnd.uniform(-2, 2), rnd.uniform(-2, 2), rnd.uniform(-10, 10), float(rnd.randint(-3, 3)), rnd.uniform(0.1, 1.0)])
                b = struct.unpack("<I", struct.pack("<f", f))[0] if w == 32 else struct.unpack("<Q", struct.pack("<d", f))[0]
                args.append("%s=%s" % (k, bits(b, w)))
            elif w == 1:
                args.append("%s=%d" % (k, rnd.randint(0, 1)))
            else:
                x = rnd.choice([rnd.randint(-3, 3), rnd.randint(0, 7), rnd.getrandbits(w)])
                args.append("%s=%s" % (k, bits(x, w)))
        rc, so, se, dt = sh([exe] + args, timeout=30)
        if rc == 1 or rc < 0:
            return args, (so + se)[-1500:], n + 1
    return None


# --------------------------------------------------------------------------
# Verdict + evidence
# --------------------------------------------------------------------------
TRUSTED_BASE = [
    "cbmc 6.11.0 front end, symex, goto-instrument --dfcc contract instrumentation",
    "SAT (minisat2 built into cbmc; kissat through --external-sat-solver) / cvc5 1.0 / z3 4.8.12 and z3-new 5.1 (sum-of-monomials tactic) as named per unit",
    "IEEE-754 binary32/64 round-to-nearest as modelled by cbmc; no FMA contraction, FLT_EVAL_METHOD==0",
]


def finish(prop, tier, units, t0, extra_cov=None, assumptions=(), not_covered=(),
           level="proof", extraction=None, bounded_units=()):
    known = load_known()
    seed = int(os.environ.get("VERIF_SEED", "0") or 0)
    os.makedirs(os.path.join(VERIF, "evidence"), exist_ok=True)
    os.makedirs(REPLAY, exist_ok=True)
    viol_lines, known_lines, undecided = [], [], []
    n_obl = n_dis = n_bounded = 0
    recs = []
    fn_set = []
    replayed = {}
    for u in units:
        # A refutation under uninterpreted arithmetic (mode ABS) that the real code does not reproduce may be an artefact of the
        # abstraction: plain uninterpreted + and * are not commutative, IEEE's are.  Before it is reported, the unit is re-run with
        # commutative symbols (-DCXX2C_ABS_COMM: operands canonically ordered, NaN operands propagate).  Pass -> the obligation holds
        # (a harmless a*b -> b*a edit); fail -> violation; no answer -> undecided (exit 2), never a violation.
        if u.status == "fail" and u.failed and u.mode == "ABS" and "CXX2C_ABS_ARITH" in u.defines and "CXX2C_ABS_COMM" not in u.defines:
            tag = "%s_%s" % (prop, re.sub(r"[^A-Za-z0-9_.]", "_", u.name))
            rc, rout = native_replay(u, u.inputs, REPLAY, tag) if u.inputs or u.replay else (None, "verifier gave no input assignment")
            replayed[u.name] = (rc, rout)
            if not ((rc == 1) or (isinstance(rc, int) and rc < 0 and rc != -9)):
                import copy
                v = copy.copy(u)
                v.name, v.defines, v.timeout = u.name + ".comm", list(u.defines) + ["CXX2C_ABS_COMM"], max(u.timeout or 0, 1800)
                v.status, v.reason, v.obligations, v.failed, v.inputs, v.cmds, v.raw, v.best_effort = None, "", [], [], {}, [], "", False
                run_unit(v, os.path.join(BUILD, prop))
                u.seconds += v.seconds
                u.cmds += v.cmds
                if v.status == "pass":
                    print("  [comm] %s: refuted with non-commutative uninterpreted + and *, not reproduced on the real code, DISCHARGED with commutative symbols (%.0fs)" % (u.name, v.seconds), flush=True)
                    u.status, u.failed, u.obligations, u.backend = "pass", [], v.obligations, u.backend + " (commutative re-check)"
                elif v.status == "fail":
                    print("  [comm] %s: refuted with commutative symbols as well" % u.name, flush=True)
                else:
                    u.status = "undecided"
                    u.reason = "refuted under non-commutative uninterpreted arithmetic, not reproduced on the real code, and the commutative re-check gave no answer (%s)" % v.reason[:200]
    for u in units:
        for f in u.functions:
            if f not in fn_set:
                fn_set.append(f)
        if u.status == "undecided":
            undecided.append(u)
            continue
        if u.status == "skipped":
            continue
        for ob in u.obligations:
            if u.bounded:
                n_bounded += 1
            else:
                n_obl += 1
                if ob["status"] == "SUCCESS":
                    n_dis += 1
        recs.append({"unit": u.name, "entry": u.entry, "mode": u.mode, "backend": u.backend,
                     "enforce": u.enforce, "replace": u.replace, "obligations": len(u.obligations),
                     "failed": len(u.failed), "seconds": round(u.seconds, 2),
                     "bounded": u.bounded, "clause": u.clause,
                     "slow": u.seconds > 30})
        if u.failed:
            # group: one violation per unit (first failed obligation drives the replay)
            ob = u.failed[0]
            k = match_known(known, prop, u, ob)
            tag = "%s_%s" % (prop, re.sub(r"[^A-Za-z0-9_.]", "_", u.name))
            rpath = os.path.join(REPLAY, tag + ".json")
            rc, rout = replayed[u.name] if u.name in replayed else (native_replay(u, u.inputs, REPLAY, tag) if u.inputs or u.replay else (None, "verifier gave no input assignment"))
            # exit 1 = oracle violated on the real code; a negative exit is a trap (SIGFPE/SIGSEGV) of the
            # real code on an input that satisfies the harness assumptions - also a reproduction
            reproduced = (rc == 1) or (isinstance(rc, int) and rc < 0 and rc != -9)
            if isinstance(rc, int) and rc < 0 and rc != -9:
                rout = (rout or "") + "\nREPRODUCED on real code: the real function trapped (signal %d) on this input" % (-rc)
            rep = {"property": prop, "unit": u.name, "entry": u.entry,
                   "failed_obligations": [{k2: v for k2, v in o.items() if k2 not in ("inputs",)} for o in u.failed],
                   "mode": u.mode, "backend": u.backend, "inputs": u.inputs,
                   "native_replay": {"exit": rc, "output": rout, "reproduced": reproduced,
                                     "source": (u.replay or {}).get("src")},
                   "commands": u.cmds, "verifier_output_tail": u.raw[-6000:]}
            json.dump(rep, open(rpath, "w"), indent=1)
            if k:
                known_lines.append("KNOWN-FINDING: property=%s %s" % (prop, k.get("what", u.name)))
            else:
                line = "VIOLATION property=%s replay=%s" % (prop, rpath)
                if not reproduced:
                    line += " no-failing-input-found"
                viol_lines.append((line, u, ob))
    wall = time.time() - t0
    samples = []
    for u in units:
        if u.obligations:
            o = u.obligations[0]
            samples.append({"unit": u.name, "obligation": o["property"], "description": o["description"],
                            "status": o["status"], "backend": u.backend, "mode": u.mode})
        if len(samples) >= 8:
            break
    cov = {
        "obligations": n_obl, "discharged": n_dis,
        "checker_cmd": "goto-cc --function h_X; goto-instrument --dfcc h_X --enforce-contract f [--replace-call-with-contract g] [--apply-loop-contracts]; cbmc {sat|kissat|--cvc5|--z3 --outfile + z3 4.8.12 / z3-new som} --json-ui (per unit, see units[].backend)",
        "trusted_base": TRUSTED_BASE,
        "functions_under_contract": fn_set,
        "units": recs,
        "bounded_obligations_not_counted": n_bounded,
        "bounded": [{"unit": u.name, "bound": u.bounded} for u in units if u.bounded],
        "undecided_units": [{"unit": u.name, "reason": u.reason[:500]} for u in undecided],
        "refutation_search_only_not_decided": [{"unit": u.name, "clause": u.clause, "reason": u.reason[:200]} for u in units if u.status == "skipped"],
        "not_covered_clauses": list(not_covered),
        "samples": samples or [{"note": "no obligations"}],
        "solver_seconds_total": round(sum(u.seconds for u in units), 1),
    }
    if extraction:
        cov["extraction"] = extraction
    if extra_cov:
        cov.update(extra_cov)
    asm = list(assumptions)
    for u in units:
        for a in u.assumptions:
            if a not in asm:
                asm.append(a)
    ev = {"property_id": prop, "tier": tier, "seed": seed, "level": level, "coverage": cov,
          "assumptions": asm, "wall_s": round(wall, 2),
          "violations": len(viol_lines)}
    # runs against a scratch copy of the repository (VERIF_REPO) never overwrite the committed evidence
    evdir = os.path.join(VERIF, "evidence") if os.path.realpath(REPO) == "/repo" else os.path.join(BUILD, "evidence_scratch")
    os.makedirs(evdir, exist_ok=True)
    json.dump(ev, open(os.path.join(evdir, prop + ".json"), "w"), indent=1)
    for l in known_lines:
        print(l)
    if undecided:
        for u in undecided:
            print("UNDECIDED property=%s unit=%s reason=%s" % (prop, u.name, u.reason[:400]))
    if viol_lines:
        for line, u, ob in viol_lines:
            print("  failed obligation: %s :: %s [%s]" % (u.name, ob["property"], ob["description"]))
            print(line)
        return 1
    if undecided:
        return 2
    print("OK property=%s tier=%s obligations=%d discharged=%d bounded=%d wall=%.1fs" % (
        prop, tier, n_obl, n_dis, n_bounded, wall))
    return 0
