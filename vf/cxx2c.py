#!/usr/bin/env python3
"""cxx2c: mechanical extraction of instantiated C++ functions from clang's typed
AST (-ast-dump=json) into C that CBMC's C front end accepts.

This is not a general C++ -> C compiler.  It handles the subset the anchored Imath
functions use and ABORTS (Unsupported) on anything else.  The emission rules are
listed in DESIGN.md section 3.2; the short version:

  class K<T>                 -> struct K_T { fields in declaration order } (bases first, as member _base)
  member function            -> RET name(struct K_T *this_, params...)
  T& / const T& / T&&        -> T*   (aliasing preserved; temporaries hoisted to function-scope locals)
  constructors               -> void name(struct K_T *this_, params...)
  overloaded operators,
  conversion operators       -> calls of the extracted function the AST names
  throw E(...)               -> cxx2c_thrown = CXX2C_E_<E>; return <zero>;   (+ check after statements that
                                contain calls to functions that may throw)
  new T[n]                   -> malloc
  element-type arithmetic    -> IM_ADD/IM_SUB/IM_MUL/IM_DIV/IM_NEG macros (plain C operators by default)
  libm / builtins            -> cxx2c_<name> wrappers declared in cxx2c_rt.h
  const, constexpr, noexcept, inline, attributes, namespaces, access: dropped
"""
import hashlib
import json
import os
import re
import subprocess
import sys


class Unsupported(Exception):
    pass


# ---------------------------------------------------------------------------
# names
# ---------------------------------------------------------------------------
OPNAMES = {
    "+": "add", "-": "sub", "*": "mul", "/": "div", "%": "mod", "^": "xor", "&": "and", "|": "or",
    "~": "compl", "!": "not", "=": "assign", "<": "lt", ">": "gt", "+=": "addeq", "-=": "subeq",
    "*=": "muleq", "/=": "diveq", "%=": "modeq", "^=": "xoreq", "&=": "andeq", "|=": "oreq",
    "<<": "shl", ">>": "shr", "<<=": "shleq", ">>=": "shreq", "==": "eq", "!=": "ne", "<=": "le",
    ">=": "ge", "&&": "land", "||": "lor", "++": "inc", "--": "dec", ",": "comma", "->": "arrow",
    "()": "call", "[]": "index",
}


def strip_ns(s):
    s = re.sub(r"\bImath_3_2::", "", s)
    s = re.sub(r"\bImath::", "", s)
    s = re.sub(r"\bPyImath::", "", s)
    return s


def tkey(s):
    """lookup key of a type: namespaces stripped, spacing normalised, common typedef names inside template
    argument lists replaced by their canonical spelling"""
    s = strip_ns(norm_type(s))
    s = re.sub(r"\bstd::size_t\b|\bsize_t\b", "unsigned long", s)
    s = re.sub(r"\bPy_ssize_t\b|\bssize_t\b|\bptrdiff_t\b", "long", s)
    return s


def norm_type(s):
    s = s.strip()
    s = re.sub(r"\s+", " ", s)
    s = re.sub(r"\s*([<>,*&])\s*", r"\1", s)
    s = s.replace("*", " *").replace("&", " &").replace(" & &", " &&").replace(" &&", " &&")
    s = re.sub(r" +", " ", s)
    return s.strip()


def cident(s):
    """sanitise a qualified C++ name / type into a C identifier fragment"""
    s = strip_ns(s)
    s = s.replace("unsigned long long", "ull").replace("long long", "ll")
    s = s.replace("unsigned int", "uint").replace("unsigned long", "ulong").replace("unsigned short", "ushort")
    s = s.replace("unsigned char", "uchar").replace("signed char", "schar")
    s = re.sub(r"\bconst\b", "", s)
    s = s.replace("std::", "std_")
    s = s.replace("::", "_").replace("<", "_").replace(">", "").replace(",", "_")
    s = s.replace("&&", "RR").replace("&", "R").replace("*", "P").replace("[", "_").replace("]", "")
    s = re.sub(r"\s+", "", s)
    s = re.sub(r"[^A-Za-z0-9_]", "_", s)
    s = re.sub(r"_+", "_", s)
    return s.strip("_")


def fn_cname(qualname, params, is_const):
    base = None
    i = qualname.rfind("operator")
    if i >= 0 and (i == 0 or qualname[i - 1] in ": ") :
        rest = qualname[i + 8:].strip()
        for tok in sorted(OPNAMES, key=len, reverse=True):
            if rest.startswith(tok):
                tail = rest[len(tok):]
                if tail == "" or tail.startswith("<"):
                    # '<' after the token is a template argument list, unless the token itself could be longer
                    base = cident(qualname[:i]) + "_op_" + OPNAMES[tok] + ("_" + cident(tail) if tail else "")
                    break
        if base is None and rest and (rest[0].isalpha() or rest[0] == "_"):
            base = cident(qualname[:i]) + "_conv_" + cident(rest)
    if base is None:
        base = cident(qualname)
    base = base.strip("_")
    ps = "__".join(cident(p) for p in params)
    name = base + ("__" + ps if ps else "")
    if is_const:
        name += "__c"
    return name


# ---------------------------------------------------------------------------
# AST index
# ---------------------------------------------------------------------------
DECL_CONTAINERS = ("TranslationUnitDecl", "NamespaceDecl", "LinkageSpecDecl", "CXXRecordDecl",
                   "ClassTemplateDecl", "ClassTemplateSpecializationDecl", "FunctionTemplateDecl",
                   "ClassTemplatePartialSpecializationDecl")
FUNC_KINDS = ("FunctionDecl", "CXXMethodDecl", "CXXConstructorDecl", "CXXConversionDecl", "CXXDestructorDecl")


def targs_of(n):
    out = []
    for c in n.get("inner", []) or []:
        if c.get("kind") == "TemplateArgument":
            if "type" in c:
                out.append(norm_type(c["type"]["qualType"]))
            elif "value" in c:
                out.append(str(c["value"]))
            elif c.get("inner") and "value" in c["inner"][0]:
                out.append(str(c["inner"][0]["value"]))
            else:
                # non-type template argument given as expression
                v = find_value(c)
                out.append(str(v) if v is not None else "?")
    return out


def find_value(n):
    if "value" in n:
        return n["value"]
    for c in n.get("inner", []) or []:
        v = find_value(c)
        if v is not None:
            return v
    return None


class AST:
    def __init__(self, root):
        self.root = root
        self.byid = {}
        self.qual = {}      # decl id -> qualified name of the decl (for records/namespaces/functions)
        self.funcs = {}     # canonical id -> function node with body
        self.first = {}     # id -> canonical id
        self.records = {}   # normalised type string -> record node (complete definition)
        self.enums = {}     # enum constant id -> integer value
        self.enumtypes = set()
        self.typedefs = {}
        self.keys = {}      # function key -> canonical id
        self.parent_ctx = {}
        self._index(root, "", None)
        self._resolve_out_of_line()

    # ------------------------------------------------------------------
    def _index(self, n, ctx, ctxnode):
        stack = [(n, ctx, ctxnode)]
        while stack:
            n, ctx, ctxnode = stack.pop()
            k = n.get("kind")
            nid = n.get("id")
            if nid:
                self.byid[nid] = n
            pdc = n.get("parentDeclContextId")
            if pdc and pdc in self.qual:
                ctx = self.qual[pdc]
            if k in ("TranslationUnitDecl", "LinkageSpecDecl"):
                for c in reversed(n.get("inner", []) or []):
                    stack.append((c, ctx, ctxnode))
            elif k == "NamespaceDecl":
                name = n.get("name", "")
                q = ctx + "::" + name if ctx and name else (name or ctx)
                if n.get("isInline"):
                    q = ctx
                self.qual[nid] = q
                for c in reversed(n.get("inner", []) or []):
                    stack.append((c, q, n))
            elif k in ("CXXRecordDecl", "ClassTemplateSpecializationDecl"):
                name = n.get("name", "")
                if k == "ClassTemplateSpecializationDecl":
                    ta = targs_of(n)
                    name = name + "<" + ",".join(ta) + ">"
                q = ctx + "::" + name if ctx else name
                self.qual[nid] = q
                if n.get("completeDefinition") or any(c.get("kind") == "FieldDecl" for c in n.get("inner", []) or []):
                    if n.get("inner"):
                        self.records.setdefault(strip_ns(norm_type(q)), n)
                for c in reversed(n.get("inner", []) or []):
                    if c.get("kind") == "CXXRecordDecl" and c.get("isImplicit"):
                        continue
                    stack.append((c, q, n))
            elif k == "ClassTemplateDecl":
                for c in reversed(n.get("inner", []) or []):
                    if c.get("kind") == "ClassTemplateSpecializationDecl":
                        stack.append((c, ctx, ctxnode))
                    elif c.get("kind") == "CXXRecordDecl":
                        # the pattern: record its id -> name so out-of-line member definitions can be named
                        self.qual[c.get("id")] = (ctx + "::" if ctx else "") + c.get("name", "") + "<pattern>"
                        self.byid[c.get("id")] = c
            elif k == "FunctionTemplateDecl":
                for c in reversed(n.get("inner", []) or []):
                    if c.get("kind") in FUNC_KINDS and any(x.get("kind") == "TemplateArgument" for x in c.get("inner", []) or []):
                        stack.append((c, ctx, ctxnode))
            elif k in FUNC_KINDS:
                self.parent_ctx[nid] = ctx
                self._index_func(n, ctx, ctxnode)
            elif k == "EnumDecl":
                q = (ctx + "::" if ctx else "") + n.get("name", "")
                self.qual[nid] = q
                self.enumtypes.add(strip_ns(norm_type(q)))
                val = -1
                for c in n.get("inner", []) or []:
                    if c.get("kind") == "EnumConstantDecl":
                        v = None
                        for cc in c.get("inner", []) or []:
                            fv = find_value(cc)
                            if fv is not None:
                                try:
                                    v = int(fv)
                                except (ValueError, TypeError):
                                    v = 1 if fv in (True, "true") else 0
                                break
                        val = v if v is not None else val + 1
                        self.enums[c["id"]] = val
                        self.byid[c["id"]] = c
            elif k in ("TypedefDecl", "TypeAliasDecl"):
                q = (ctx + "::" if ctx else "") + n.get("name", "")
                t = n.get("type", {})
                self.typedefs[strip_ns(norm_type(q))] = t.get("desugaredQualType") or t.get("qualType")
            elif k == "VarDecl":
                self.qual[nid] = (ctx + "::" if ctx else "") + n.get("name", "")

    def _index_func(self, n, ctx, ctxnode):
        nid = n["id"]
        prev = n.get("previousDecl")
        canon = self.first.get(prev, prev) if prev else nid
        self.first[nid] = canon
        has_body = any(c.get("kind") in ("CompoundStmt", "CXXTryStmt") for c in n.get("inner", []) or [])
        if has_body:
            self.funcs[canon] = n
        name = n.get("name", "")
        q = (ctx + "::" if ctx else "") + name
        if any(c.get("kind") == "TemplateArgument" for c in n.get("inner", []) or []) and n.get("kind") == "FunctionDecl":
            pass
        self.qual.setdefault(canon, q)
        self.qual[nid] = self.qual[canon]

    def _resolve_out_of_line(self):
        # out-of-line definitions carry parentDeclContextId; their qualified name must come from
        # the semantic parent.  qual[canon] was set from the first declaration (in-class), which
        # is visited first in source order, so nothing to do except for definitions whose first
        # declaration was not indexed (pattern members) - those are never extracted.
        pass

    # ------------------------------------------------------------------
    def func_params(self, n):
        return [c for c in n.get("inner", []) or [] if c.get("kind") == "ParmVarDecl"]

    def func_key(self, n):
        canon = self.first.get(n["id"], n["id"])
        q = self.qual.get(canon, n.get("name", ""))
        ps = [norm_type(p["type"]["qualType"]) for p in self.func_params(n)]
        ft = n.get("type", {}).get("qualType", "")
        is_const = bool(re.search(r"\)\s*const\b", ft))
        ta = ""
        if n.get("kind") == "FunctionDecl":
            t = targs_of(n)
            if t:
                ta = "<" + ",".join(t) + ">"
        return strip_ns(q + ta), [strip_ns(p) for p in ps], is_const

    def build_keys(self):
        if self.keys:
            return
        for canon, n in self.funcs.items():
            q, ps, c = self.func_key(n)
            key = "%s(%s)%s" % (q, ", ".join(ps), " const" if c else "")
            self.keys.setdefault(key, []).append(canon)

    def find(self, spec):
        """spec: 'Vec3<float>::operator+=' or with '(param types)' [ const]"""
        self.build_keys()
        spec_n = re.sub(r"\s+", " ", spec.strip())
        hits = []
        if "(" in spec_n and not re.search(r"operator\s*\(\)$", spec_n.split("(")[0] + "()") or spec_n.count("(") >= 1 and not spec_n.rstrip().endswith("operator()"):
            pass
        want_name = spec_n
        want_params = None
        want_const = None
        m = re.match(r"^(.*?)(\((?!\))(.*)\)|\(\))(\s*const)?$", spec_n)
        # be careful with operator()
        if m and not m.group(1).rstrip().endswith("operator"):
            want_name = m.group(1).strip()
            want_params = [norm_type(x) for x in split_top(m.group(3) or "")] if m.group(3) else []
            want_const = bool(m.group(4))
        for key, ids in self.keys.items():
            kn = key[:key.index("(")] if not key.startswith("operator()") and "operator()" not in key else key[:key.index("operator()") + 10]
            rest = key[len(kn):]
            if norm_name(kn) != norm_name(want_name):
                continue
            if want_params is not None:
                mm = re.match(r"^\((.*)\)(\s*const)?$", rest)
                kp = [norm_type(x) for x in split_top(mm.group(1))] if mm and mm.group(1) else []
                if kp != want_params or bool(mm.group(2)) != want_const:
                    continue
            hits.append((key, ids))
        if len(hits) != 1 or len(hits[0][1]) != 1:
            cands = [k for k, _ in hits]
            if not hits:
                # suggest near misses
                base = want_name.split("::")[-1]
                cands = [k for k in self.keys if base and base in k and want_name.split("::")[0].split("<")[0] in k][:12]
            raise Unsupported("extraction must-fire: %r matched %d functions; candidates: %s" % (spec, sum(len(i) for _, i in hits), cands))
        return hits[0][1][0]


def norm_name(s):
    return re.sub(r"\s+", "", s)


def split_top(s):
    out, depth, cur = [], 0, ""
    for ch in s:
        if ch in "<([":
            depth += 1
        elif ch in ">)]":
            depth -= 1
        if ch == "," and depth == 0:
            out.append(cur)
            cur = ""
        else:
            cur += ch
    if cur.strip():
        out.append(cur)
    return [x.strip() for x in out]


# ---------------------------------------------------------------------------
# types
# ---------------------------------------------------------------------------
BUILTIN = {
    "void": "void", "bool": "_Bool", "char": "char", "signed char": "signed char", "unsigned char": "unsigned char",
    "short": "short", "unsigned short": "unsigned short", "int": "int", "unsigned int": "unsigned int",
    "unsigned": "unsigned int", "long": "long", "unsigned long": "unsigned long", "long long": "long long",
    "unsigned long long": "unsigned long long", "float": "float", "double": "double", "long double": "long double",
    "size_t": "unsigned long", "std::size_t": "unsigned long", "ptrdiff_t": "long", "uint16_t": "unsigned short",
    "uint32_t": "unsigned int", "uint64_t": "unsigned long", "int64_t": "long", "int32_t": "int",
    "Py_ssize_t": "long", "ssize_t": "long", "__int128": "__int128", "unsigned __int128": "unsigned __int128",
    "char16_t": "unsigned short", "char32_t": "unsigned int", "wchar_t": "int", "nullptr_t": "void *",
    "std::nullptr_t": "void *",
}
FLOAT_TYPES = ("float", "double")
ARITH_TYPES = ("float", "double", "int", "unsigned int", "long", "unsigned long", "long long", "unsigned long long")

EXC_KINDS = ["std::domain_error", "std::invalid_argument", "std::logic_error", "std::out_of_range",
             "std::runtime_error", "std::overflow_error", "std::length_error", "std::bad_alloc",
             "boost::python::error_already_set"]


class Emitter:
    def __init__(self, ast, externals=None, opaque=None, abs_arith=False, type_map=None, extern_funcs=None):
        self.ast = ast
        self.structs = {}          # cname -> definition text
        self.tagkind = {}
        self.struct_order = []
        self.struct_pending = set()
        self.fn_done = {}          # canon id -> cname
        self.fn_text = {}          # cname -> text
        self.fn_proto = {}         # cname -> prototype
        self.fn_order = []
        self.fn_src = {}           # cname -> (file, line, key)
        self.queue = []
        self.externals = externals or {}
        self.extern_funcs = extern_funcs or {}   # qualified C++ name -> C function name (declared in rt header)
        self.opaque = opaque or {}  # normalised record type -> C type text
        self.opaque_patterns = []   # (regex on the type key, C type text)
        self.extern_patterns = []   # (regex on "qualified name(param types)", C function name)
        self.type_map = type_map or {}
        self.may_throw = {}
        self.calls = {}            # cname -> set of callee cnames
        self.throws_direct = set()
        self.used_exc = set()
        self.globals = {}          # var id -> (cname, decl text)
        self.abs_arith = abs_arith

    # ---------------- types ----------------
    def is_ref(self, qt):
        qt = qt.strip()
        return qt.endswith("&")

    def unref(self, qt):
        qt = qt.strip()
        while qt.endswith("&"):
            qt = qt[:-1].strip()
        return qt

    def strip_cv(self, qt):
        qt = re.sub(r"\b(const|volatile|struct|class|enum|typename)\b", "", qt)
        qt = re.sub(r"\bunion\s+(?=[A-Za-z_(])", "", qt)
        return re.sub(r"\s+", " ", qt).strip()

    def resolve_typedef(self, t):
        seen = 0
        while seen < 10:
            tn = strip_ns(norm_type(t))
            if tn in self.type_map:
                t = self.type_map[tn]
            elif tn in self.ast.typedefs and tn not in BUILTIN:
                t = self.ast.typedefs[tn]
            else:
                break
            seen += 1
        return t

    def ctype(self, qt, for_decl=False):
        """returns (base, ptr_suffix, array_suffix)"""
        qt = self.strip_cv(qt)
        # function pointers: not supported
        arr = ""
        m = re.match(r"^(.*?)((\[\d*\])+)$", qt)
        if m:
            qt, arr = m.group(1).strip(), m.group(2)
        # pointer to array:  float (*)[3]
        m = re.match(r"^(.*?)\(\*\)((\[\d+\])+)$", qt)
        if m:
            b, p, a = self.ctype(m.group(1))
            return b, p + "(*", ")" + m.group(2) + a + arr
        ptr = ""
        while True:
            qt = qt.strip()
            if qt.endswith("*"):
                ptr += "*"
                qt = qt[:-1]
            elif qt.endswith("&&"):
                ptr += "*"
                qt = qt[:-2]
            elif qt.endswith("&"):
                ptr += "*"
                qt = qt[:-1]
            else:
                break
            qt = self.strip_cv(qt)
        qt = self.strip_cv(qt)
        qt = self.strip_cv(self.resolve_typedef(qt))
        if qt.endswith("*") or qt.endswith("&") or qt.endswith("]"):
            b, p, a = self.ctype(qt)
            return b, p + ptr, a + arr
        if qt in BUILTIN:
            return BUILTIN[qt], ptr, arr
        n = tkey(qt)
        if n not in self.opaque:
            for pat, ctext in self.opaque_patterns:
                if re.search(pat, n):
                    self.opaque[n] = ctext
                    break
        if n not in self.opaque and n not in self.ast.records and strip_ns(norm_type(qt)) in self.ast.records:
            n = strip_ns(norm_type(qt))
        if n in self.opaque:
            return self.opaque[n], ptr, arr
        if n in self.ast.enumtypes or re.search(r"::\(unnamed enum", n):
            return "int", ptr, arr
        if n in self.ast.records:
            cn = self.need_struct(n)
            return self.tagkind.get(cn, "struct") + " " + cn, ptr, arr
        # a record whose definition was not seen under this exact spelling
        raise Unsupported("type %r has no C mapping" % qt)

    def decl(self, qt, name):
        b, p, a = self.ctype(qt)
        if p.endswith("(*"):
            return "%s %s%s%s" % (b, p, name, a)
        return "%s %s%s%s" % (b, p, name, a)

    def is_opaque(self, qt):
        n = tkey(self.strip_cv(self.resolve_typedef(self.strip_cv(self.unref(qt)))))
        if n in self.opaque:
            return True
        for pat, ctext in self.opaque_patterns:
            if re.search(pat, n):
                self.opaque[n] = ctext
                return True
        return False

    def is_record(self, qt):
        n = tkey(self.strip_cv(self.resolve_typedef(self.strip_cv(self.unref(qt)))))
        if n not in self.opaque:
            self.is_opaque(qt)
        return (n in self.ast.records and n not in self.opaque) or n in self.opaque

    def need_struct(self, n):
        cname = cident(n)
        if cname in self.structs or cname in self.struct_pending:
            return cname
        self.struct_pending.add(cname)
        rec = self.ast.records[n]
        tag = "union" if rec.get("tagUsed") == "union" else "struct"
        self.tagkind[cname] = tag
        lines = []
        bases = rec.get("bases", []) or []
        if len(bases) > 1:
            raise Unsupported("multiple inheritance in " + n)
        for b in bases:
            if b.get("isVirtual"):
                raise Unsupported("virtual base in " + n)
            bt = b["type"].get("desugaredQualType") or b["type"]["qualType"]
            lines.append("    %s;" % self.decl(bt, "_base"))
        nfields = 0
        has_virtual = any(c.get("kind") in ("CXXMethodDecl", "CXXDestructorDecl") and c.get("virtual") for c in rec.get("inner", []) or [])
        if has_virtual and not bases:
            # polymorphic class without a polymorphic base: the vptr is the first member in the Itanium ABI; kept so that
            # the C struct has the layout of the real object (it is never read by the extracted code: no virtual calls)
            lines.append("    void *_vptr;")
            nfields += 1
        for c in rec.get("inner", []) or []:
            k = c.get("kind")
            if k == "FieldDecl":
                t = c["type"].get("desugaredQualType") or c["type"]["qualType"]
                d = self.decl(t, c["name"])
                if c.get("isBitfield"):
                    w = find_value(c)
                    if d.startswith("int ") and (tkey(self.strip_cv(t)) in self.ast.enumtypes):
                        # bit-field of an enumeration without negative enumerators: unsigned, as g++/clang treat it
                        d = "unsigned " + d
                    d += " : %s" % w
                lines.append("    %s;" % d)
                nfields += 1
            elif k == "CXXMethodDecl" and c.get("virtual"):
                if not self.allow_virtual(n):
                    raise Unsupported("virtual function in " + n)
            elif k == "CXXDestructorDecl":
                if not c.get("isImplicit") and not c.get("explicitlyDefaulted") and self.nontrivial_dtor(c, n):
                    raise Unsupported("non-trivial destructor in " + n)
        if nfields == 0 and not bases:
            lines.append("    char _empty;")
        self.structs[cname] = "%s %s\n{\n%s\n};\n" % (tag, cname, "\n".join(lines))
        self.struct_order.append(cname)
        self.struct_pending.discard(cname)
        return cname

    def allow_virtual(self, n):
        return "Task" in n or "Vectorized" in n

    def nontrivial_dtor(self, c, n):
        # a destructor with an empty body is fine
        for x in c.get("inner", []) or []:
            if x.get("kind") == "CompoundStmt" and (x.get("inner") or []):
                return True
        return False

    def zero_of(self, qt):
        if qt.strip() == "void":
            return ""
        if self.is_ref(qt):
            return "0"
        b, p, a = self.ctype(qt)
        if p:
            return "0"
        if b.startswith("struct ") or b.startswith("union "):
            return "(%s){0}" % b
        return "0"

    # ---------------- functions ----------------
    def request(self, canon):
        if canon in self.fn_done:
            return self.fn_done[canon]
        n = self.ast.funcs.get(canon)
        if n is None:
            raise Unsupported("function %s has no body in the AST" % self.ast.qual.get(canon, canon))
        q, ps, c = self.ast.func_key(n)
        cname = fn_cname(q, ps, c)
        if n.get("kind") == "FunctionDecl" and not ps and "__" not in cname:
            cname = "Imath_" + cname   # parameterless free functions could collide with libc (drand48, lrand48)
        if cname in self.fn_done.values():
            cname += "_" + hashlib.sha1(n.get("mangledName", canon).encode()).hexdigest()[:6]
        self.fn_done[canon] = cname
        self.queue.append(canon)
        return cname

    def run(self):
        while self.queue:
            canon = self.queue.pop(0)
            self.emit_function(canon)
        self.compute_may_throw()

    def is_method(self, n):
        return n.get("kind") in ("CXXMethodDecl", "CXXConstructorDecl", "CXXConversionDecl", "CXXDestructorDecl") \
            and n.get("storageClass") != "static"

    def ret_type(self, n):
        if n.get("kind") in ("CXXConstructorDecl", "CXXDestructorDecl"):
            return "void"
        ft = n["type"]["qualType"]
        # return type = text before the top-level parameter list
        depth = 0
        for i, ch in enumerate(ft):
            if ch == "<":
                depth += 1
            elif ch == ">":
                depth -= 1
            elif ch == "(" and depth == 0:
                # could be 'float (*)[3]' style: ignore
                return ft[:i].strip()
        return ft

    def class_of(self, n):
        canon = self.ast.first.get(n["id"], n["id"])
        q = self.ast.qual.get(canon, "")
        # strip the function name
        name = n.get("name", "")
        if q.endswith("::" + name):
            return q[: -len(name) - 2]
        return None

    def emit_function(self, canon):
        n = self.ast.funcs[canon]
        cname = self.fn_done[canon]
        fe = FuncEmitter(self, n, cname)
        text, proto = fe.emit()
        self.fn_text[cname] = text
        self.fn_proto[cname] = proto
        self.fn_order.append(cname)
        loc = n.get("loc", {})
        q, ps, c = self.ast.func_key(n)
        self.fn_src[cname] = {"key": "%s(%s)%s" % (q, ", ".join(ps), " const" if c else ""),
                              "line": loc.get("line") or (loc.get("expansionLoc", {}) or {}).get("line"),
                              "file": loc.get("file") or (loc.get("expansionLoc", {}) or {}).get("file"),
                              "sha": hashlib.sha256(text.encode()).hexdigest()[:16]}
        self.calls[cname] = fe.callees
        if fe.throws:
            self.throws_direct.add(cname)

    def compute_may_throw(self):
        mt = set(self.throws_direct)
        changed = True
        while changed:
            changed = False
            for f, cs in self.calls.items():
                if f not in mt and any(c in mt for c in cs):
                    mt.add(f)
                    changed = True
        self.may_throw = mt

    # ---------------- output ----------------
    def output(self, header_comment="", hname=None):
        """returns (header_text, body_text): structs + prototypes, and function bodies"""
        out = []
        out.append("/* GENERATED by /verif/vf/cxx2c.py from clang's AST of the real sources - do not edit.\n%s */\n" % header_comment)
        guard = "CXX2C_" + re.sub(r"[^A-Za-z0-9]", "_", hname or "H").upper()
        out.append("#ifndef %s\n#define %s" % (guard, guard))
        out.append('#include "cxx2c_rt.h"\n')
        for s in self.struct_order:
            out.append("%s %s;" % (self.tagkind.get(s, "struct"), s))
        out.append("")
        for s in self.struct_order:
            out.append(self.structs[s])
        out.append("")
        for f in self.fn_order:
            out.append(self.fn_proto[f] + ";")
        out.append("#endif\n")
        header = "\n".join(out)
        out = []
        if hname:
            out.append('#include "%s"\n' % hname)
        for g, (cn, txt) in self.globals.items():
            out.append(txt)
        out.append("")
        # second pass: throw checks need may_throw, which is only known now
        for f in self.fn_order:
            t = self.fn_text[f]
            t = re.sub(r"/\*THROWCHK:([A-Za-z0-9_,]*):(.*?)\*/",
                       lambda m: ("if (cxx2c_thrown) %s" % m.group(2)) if any(c in self.may_throw for c in m.group(1).split(",") if c) else "",
                       t)
            out.append("/* %s  [%s:%s] */" % (self.fn_src[f]["key"], os.path.basename(str(self.fn_src[f]["file"] or "")), self.fn_src[f]["line"]))
            out.append(t)
        return header, "\n".join(out)


def order_structs(em):
    # struct_order is in completion order (dependencies first) because need_struct recurses
    return em.struct_order


# ---------------------------------------------------------------------------
# function bodies
# ---------------------------------------------------------------------------
ARITH_MACRO = {"+": "IM_ADD", "-": "IM_SUB", "*": "IM_MUL", "/": "IM_DIV"}

MATH_BUILTINS = {
    "sqrt", "sqrtf", "sin", "sinf", "cos", "cosf", "tan", "tanf", "atan2", "atan2f", "acos", "acosf", "asin", "asinf",
    "atan", "atanf", "log", "logf", "exp", "expf", "pow", "powf", "fmod", "fmodf", "fabs", "fabsf", "floor", "floorf",
    "ceil", "ceilf", "nextafter", "nextafterf", "cbrt", "cbrtf", "log10", "log10f", "hypot", "hypotf", "copysign",
    "copysignf", "isnan", "isinf", "isfinite", "abs", "labs", "llabs", "huge_valf", "huge_val", "nanf", "nan", "inff", "inf",
    "sinh", "sinhf", "cosh", "coshf", "tanh", "tanhf", "fmin", "fminf", "fmax", "fmaxf", "trunc", "truncf", "round", "roundf",
    "ldexp", "ldexpf", "frexp", "frexpf", "isnormal", "signbit", "signbitf", "expect", "clz", "memcpy", "memset",
    "isinf_sign", "fpclassify", "isunordered", "isgreater", "isless",
}


class FuncEmitter:
    def __init__(self, em, n, cname):
        self.em = em
        self.ast = em.ast
        self.n = n
        self.cname = cname
        self.temps = []
        self.ntemp = 0
        self.callees = set()
        self.throws = False
        self.stmt_calls = set()
        self.rtype = em.ret_type(n)
        self.locals_ref = {}   # decl id -> True if reference-typed (emitted as pointer)
        self.local_names = {}
        self.is_method = em.is_method(n)
        self.cls = em.class_of(n) if n.get("kind") != "FunctionDecl" else None
        self.label_n = 0

    def fail(self, msg):
        raise Unsupported("%s: %s" % (self.cname, msg))

    def temp(self, qt):
        self.ntemp += 1
        name = "_t%d" % self.ntemp
        self.temps.append(self.em.decl(qt, name) + ";")
        return name

    def zero_ret(self):
        z = self.em.zero_of(self.rtype)
        return "return %s;" % z if z else "return;"

    # ---------------- top ----------------
    def emit(self):
        n = self.n
        params = []
        if self.is_method:
            if not self.cls:
                self.fail("method without class context")
            params.append(self.em.decl(self.cls + " *", "this_"))
        for p in self.ast.func_params(n):
            name = p.get("name") or ("_unnamed%d" % len(params))
            qt = p["type"].get("desugaredQualType") or p["type"]["qualType"]
            qt0 = p["type"]["qualType"]
            if self.em.is_ref(qt0) or self.em.is_ref(qt):
                self.locals_ref[p["id"]] = True
            params.append(self.em.decl(qt if not self.em.is_ref(qt0) else qt0, name))
            self.local_names[p["id"]] = name
        rt = self.rtype
        pk = ["this"] if self.is_method else []
        for p in self.ast.func_params(n):
            q0 = p["type"]["qualType"]
            qd = p["type"].get("desugaredQualType") or q0
            pk.append("ref" if (self.em.is_ref(q0) or self.em.is_ref(qd)) else ("ptr" if self.em.strip_cv(qd).endswith("*") or "[" in qd else "val"))
        if not hasattr(self.em, "fn_pkinds"):
            self.em.fn_pkinds = {}
        self.em.fn_pkinds[self.cname] = pk
        proto = "%s(%s)" % (self.em.decl(rt, self.cname), ", ".join(params) if params else "void")
        body = None
        inits = []
        for c in n.get("inner", []) or []:
            if c.get("kind") == "CXXCtorInitializer":
                inits.append(c)
            elif c.get("kind") == "CompoundStmt":
                body = c
            elif c.get("kind") == "CXXTryStmt":
                self.fail("function-try-block")
        lines = []
        for ci in inits:
            lines.append(self.ctor_init(ci))
        for s in body.get("inner", []) or []:
            lines.append(self.stmt(s, 1))
        text = proto + "\n{\n"
        for t in self.temps:
            text += "    " + t + "\n"
        text += "\n".join(l for l in lines if l is not None)
        text += "\n}\n"
        return text, proto

    def ctor_init(self, ci):
        self.stmt_calls = set()
        inner = ci.get("inner", []) or []
        if "anyInit" in ci:
            f = ci["anyInit"]
            ft = f["type"].get("desugaredQualType") or f["type"]["qualType"]
            target = "this_->%s" % f["name"]
            e = inner[0] if inner else None
            return "    " + self.init_object(target, ft, e) + self.throwchk()
        if "baseInit" in ci:
            bt = ci["baseInit"].get("desugaredQualType") or ci["baseInit"]["qualType"]
            e = inner[0] if inner else None
            return "    " + self.init_object("this_->_base", bt, e) + self.throwchk()
        self.fail("unsupported ctor initializer")

    def init_object(self, target, qt, e):
        """statement text initialising lvalue `target` of type qt from init expr e"""
        if e is None:
            return ";"
        e = self.skip(e)
        if self.em.is_ref(qt):
            return "%s = %s;" % (target, self.addr(e))
        k = e.get("kind")
        if k in ("CXXConstructExpr", "CXXTemporaryObjectExpr") and self.em.is_record(e["type"]["qualType"]):
            return self.construct_into("&(%s)" % target, e) + ";"
        if k == "InitListExpr":
            return self.initlist_into(target, qt, e)
        if k == "ImplicitValueInitExpr":
            return "memset(&(%s), 0, sizeof(%s));" % (target, target)
        if k == "CXXDefaultInitExpr":
            return self.init_object(target, qt, (e.get("inner") or [None])[0])
        return "%s = %s;" % (target, self.rv(e))

    def initlist_into(self, target, qt, e):
        qt = self.em.strip_cv(qt)
        items = e.get("inner", []) or []
        m = re.match(r"^(.*?)\[(\d+)\]((\[\d+\])*)$", qt)
        out = []
        if m:
            et = m.group(1) + m.group(3)
            n = int(m.group(2))
            if "array_filler" in e:
                items = [i for i in e["array_filler"] if i.get("kind") != "ImplicitValueInitExpr"]
            for i in range(n):
                if i < len(items):
                    out.append(self.init_object("%s[%d]" % (target, i), et, items[i]))
                else:
                    out.append("memset(&(%s[%d]), 0, sizeof(%s[%d]));" % (target, i, target, i))
            return " ".join(out)
        if self.em.is_record(qt):
            rec = self.ast.records[tkey(self.em.strip_cv(self.em.resolve_typedef(qt)))]
            fields = [c for c in rec.get("inner", []) or [] if c.get("kind") == "FieldDecl"]
            for f, it in zip(fields, items):
                ft = f["type"].get("desugaredQualType") or f["type"]["qualType"]
                out.append(self.init_object("%s.%s" % (target, f["name"]), ft, it))
            return " ".join(out)
        if len(items) == 1:
            return "%s = %s;" % (target, self.rv(items[0]))
        if not items:
            return "%s = 0;" % target
        self.fail("InitListExpr for " + qt)

    # ---------------- statements ----------------
    def throwchk(self):
        if not self.stmt_calls:
            return ""
        s = " /*THROWCHK:%s:%s*/" % (",".join(sorted(self.stmt_calls)), self.zero_ret())
        self.stmt_calls = set()
        return s

    def stmt(self, s, ind):
        pad = "    " * ind
        k = s.get("kind")
        if k is None:
            return None
        self.stmt_calls = set()
        if k == "CompoundStmt":
            lines = [pad + "{"]
            for c in s.get("inner", []) or []:
                r = self.stmt(c, ind + 1)
                if r is not None:
                    lines.append(r)
            lines.append(pad + "}")
            return "\n".join(lines)
        if k == "DeclStmt":
            out = []
            for d in s.get("inner", []) or []:
                out.append(self.vardecl(d, pad))
            return "\n".join(x for x in out if x)
        if k == "ReturnStmt":
            inner = s.get("inner", []) or []
            if not inner:
                return pad + "return;"
            e = self.skip(inner[0])
            if self.em.is_ref(self.rtype):
                r = self.addr(e)
                return pad + "return %s;" % r if not self.stmt_calls else \
                    pad + "{ %s = %s;%s return _rv; }" % (self.em.decl(self.rtype, "_rv"), r, self.throwchk())
            if self.rtype.strip() == "void":
                txt = self.rv(e)
                return pad + "%s;%s return;" % (txt, self.throwchk())
            r = self.rv_into_value(e, self.rtype)
            if self.stmt_calls:
                return pad + "{ %s = %s;%s return _rv; }" % (self.em.decl(self.rtype, "_rv"), r, self.throwchk())
            return pad + "return %s;" % r
        if k == "IfStmt":
            inner = list(s.get("inner", []) or [])
            pre = ""
            if s.get("hasInit"):
                pre += self.stmt(inner.pop(0), ind + 1) + "\n"
            if s.get("hasVar"):
                pre += self.stmt(inner.pop(0), ind + 1) + "\n"
                # the condition follows
            cond = self.cond(inner[0])
            chk = self.throwchk()
            then = self.stmt_block(inner[1], ind)
            txt = pad + "if (%s)\n%s" % (cond, then)
            if len(inner) > 2:
                txt += "\n" + pad + "else\n" + self.stmt_block(inner[2], ind)
            if chk:
                # condition contains a call that may throw: evaluate first
                t = self.temp("bool")
                txt = pad + "%s = %s;%s\n" % (t, cond, chk) + pad + "if (%s)\n%s" % (t, then)
                if len(inner) > 2:
                    txt += "\n" + pad + "else\n" + self.stmt_block(inner[2], ind)
            if pre:
                return pad + "{\n" + pre + txt + "\n" + pad + "}"
            return txt
        if k == "ForStmt":
            inner = s.get("inner", []) or []
            init, condvar, cond, inc, body = (inner + [{}] * 5)[:5]
            if condvar.get("kind"):
                self.fail("for with condition variable")
            lines = [pad + "{"]
            if init.get("kind"):
                lines.append(self.stmt(init, ind + 1))
            c = self.cond(cond) if cond.get("kind") else "1"
            self.stmt_calls = set()
            i = self.rv(inc) if inc.get("kind") else ""
            self.stmt_calls = set()
            lines.append(pad + "    for (; %s; %s)" % (c, i))
            lines.append(self.stmt_block(body, ind + 1))
            lines.append(pad + "}")
            return "\n".join(lines)
        if k == "WhileStmt":
            inner = s.get("inner", []) or []
            if len(inner) != 2:
                self.fail("while with condition variable")
            c = self.cond(inner[0])
            self.stmt_calls = set()
            return pad + "while (%s)\n%s" % (c, self.stmt_block(inner[1], ind))
        if k == "DoStmt":
            inner = s.get("inner", []) or []
            b = self.stmt_block(inner[0], ind)
            c = self.cond(inner[1])
            self.stmt_calls = set()
            return pad + "do\n%s\n%swhile (%s);" % (b, pad, c)
        if k == "BreakStmt":
            return pad + "break;"
        if k == "ContinueStmt":
            return pad + "continue;"
        if k == "NullStmt":
            return pad + ";"
        if k == "SwitchStmt":
            inner = s.get("inner", []) or []
            if len(inner) != 2:
                self.fail("switch with init/var")
            c = self.rv(inner[0])
            return pad + "switch (%s)\n%s" % (c, self.stmt_block(inner[1], ind))
        if k == "CaseStmt":
            inner = s.get("inner", []) or []
            v = self.rv(inner[0])
            rest = inner[-1]
            return pad + "case %s:\n%s" % (v, self.stmt(rest, ind + 1) or (pad + "    ;"))
        if k == "DefaultStmt":
            inner = s.get("inner", []) or []
            return pad + "default:\n%s" % (self.stmt(inner[0], ind + 1) or (pad + "    ;"))
        if k in ("CXXTryStmt", "GotoStmt", "LabelStmt", "CXXForRangeStmt", "CXXCatchStmt"):
            self.fail("unsupported statement " + k)
        if k == "AttributedStmt":
            return self.stmt((s.get("inner") or [])[-1], ind)
        # expression statement
        e = self.skip(s)
        if e.get("kind") == "CXXThrowExpr":
            return pad + self.throw(e)
        if e.get("kind") in ("CXXFunctionalCastExpr", "CXXConstructExpr", "CXXTemporaryObjectExpr"):
            tq = self.em.strip_cv(e.get("type", {}).get("desugaredQualType") or e.get("type", {}).get("qualType", ""))
            if tq in EXC_KINDS:
                # an exception object constructed and discarded (no throw): no effect
                return pad + "; /* temporary %s constructed and discarded - NOT thrown */" % tq
        txt = self.rv(e, discard=True)
        if "cxx2c_throw_error_already_set()" in txt:
            # boost::python::throw_error_already_set() never returns: it throws
            self.throws = True
            return pad + "{ " + txt + "; " + self.zero_ret() + " }"
        return pad + txt + ";" + self.throwchk()

    def stmt_block(self, s, ind):
        if s.get("kind") == "CompoundStmt":
            return self.stmt(s, ind)
        pad = "    " * ind
        r = self.stmt(s, ind + 1)
        return pad + "{\n" + (r or "") + "\n" + pad + "}"

    def throw(self, e):
        self.throws = True
        inner = e.get("inner", []) or []
        if not inner:
            kind = "rethrow"
        else:
            t = inner[0].get("type", {})
            kind = t.get("desugaredQualType") or t.get("qualType") or "unknown"
        kind = self.em.strip_cv(kind)
        self.em.used_exc.add(kind)
        return "{ cxx2c_thrown = CXX2C_E_%s; %s }" % (cident(kind), self.zero_ret())

    def vardecl(self, d, pad):
        k = d.get("kind")
        if k in ("TypedefDecl", "TypeAliasDecl", "StaticAssertDecl", "UsingDecl", "EmptyDecl", "UsingDirectiveDecl"):
            return None
        if k == "CXXRecordDecl":
            self.pending_local_record = d
            return None
        if k != "VarDecl":
            self.fail("local declaration " + str(k))
        name = d["name"]
        # avoid clashes with C keywords / temps
        cn = name if name not in ("this_", "restrict", "_rv") else name + "_"
        self.local_names[d["id"]] = cn
        qt0 = d["type"]["qualType"]
        qt = d["type"].get("desugaredQualType") or qt0
        if "(unnamed" in qt and getattr(self, "pending_local_record", None) is not None:
            key = strip_ns(norm_type(self.em.strip_cv(qt)))
            self.em.local_n = getattr(self.em, "local_n", 0) + 1
            alias = "local_%s_%d" % (self.cname[:40], self.em.local_n)
            self.ast.records[alias] = self.pending_local_record
            self.em.type_map[key] = alias
            self.pending_local_record = None
        if d.get("storageClass") == "static":
            # function-local static constant: emit as plain local if initialised by a constant expression
            pass
        inner = [c for c in d.get("inner", []) or [] if c.get("kind") not in ("FullComment",)]
        init = inner[0] if inner else None
        if self.em.is_ref(qt0) or self.em.is_ref(qt):
            self.locals_ref[d["id"]] = True
            if init is None:
                self.fail("reference without initialiser")
            return pad + "%s = %s;%s" % (self.em.decl(qt0 if self.em.is_ref(qt0) else qt, cn), self.addr(self.skip(init)), self.throwchk())
        decl = self.em.decl(qt, cn)
        if init is None:
            return pad + decl + ";"
        e = self.skip(init)
        m = re.match(r"^(.*?)\[(\d+)\]", self.em.strip_cv(qt))
        if e.get("kind") in ("CXXConstructExpr",) and m:
            # array of records, default-constructed element by element
            et = self.em.strip_cv(qt)
            ctor = self.ctor_of(e)
            if ctor is None or self.ctor_is_empty(ctor):
                return pad + decl + ";"
            cn_ctor = self.call_name(ctor)
            if (e.get("inner") or []):
                self.fail("array construction with arguments")
            dims = [int(x) for x in re.findall(r"\[(\d+)\]", et)]
            total = 1
            for x in dims:
                total *= x
            b, p, a = self.em.ctype(re.sub(r"(\[\d+\])+$", "", et))
            return pad + decl + "; for (int _i = 0; _i < %d; _i++) %s(((%s *)%s) + _i);" % (total, cn_ctor, b, cn)
        return pad + decl + "; " + self.init_object(cn, qt, e) + self.throwchk()

    # ---------------- expressions ----------------
    def skip(self, e):
        """strip wrappers that have no meaning in C"""
        while e.get("kind") in ("ExprWithCleanups", "CXXBindTemporaryExpr", "ConstantExpr", "FullExpr",
                                "SubstNonTypeTemplateParmExpr") \
                or (e.get("kind") == "MaterializeTemporaryExpr") \
                or (e.get("kind") in ("ImplicitCastExpr", "CXXStaticCastExpr", "CXXFunctionalCastExpr", "CStyleCastExpr", "CXXConstCastExpr")
                    and e.get("castKind") in ("NoOp", "ConstructorConversion", "UserDefinedConversion")
                    and self._same_shape(e)):
            inner = e.get("inner") or []
            if not inner:
                break
            e = inner[-1] if e.get("kind") != "CXXFunctionalCastExpr" else inner[0]
        return e

    def _same_shape(self, e):
        # a NoOp cast that only adds const / converts derived categories
        return True

    def cond(self, e):
        return self.rv(e)

    def lit_float(self, e):
        v = e["value"]
        qt = e["type"]["qualType"]
        s = str(v)
        if re.fullmatch(r"-?\d+", s):
            s += ".0"
        if "inf" in s.lower() or "nan" in s.lower():
            self.fail("non-finite literal")
        if self.em.strip_cv(qt) == "float":
            # clang prints the literal's value in shortest-roundtrip decimal of the double it parsed;
            # going through (float) of that decimal is exact for float literals
            return "((float)%s)" % s if "e" in s.lower() or "." in s else "%sf" % s
        return "%s" % s

    def member_of_decl(self, e):
        """name of the member designated by a MemberExpr"""
        return e["name"]

    def lv(self, e):
        """C lvalue expression for a C++ glvalue"""
        e = self.skip(e)
        k = e.get("kind")
        if k == "DeclRefExpr":
            rd = e["referencedDecl"]
            rk = rd.get("kind")
            if rk in ("ParmVarDecl", "VarDecl"):
                name = self.local_names.get(rd["id"])
                if name is None:
                    return self.global_var(rd)
                if self.locals_ref.get(rd["id"]):
                    return "(*%s)" % name
                return name
            if rk == "EnumConstantDecl":
                return str(self.ast.enums[rd["id"]])
            if rk in FUNC_KINDS:
                return self.call_name_by_id(rd["id"])
            if rk == "BindingDecl":
                self.fail("structured binding")
            self.fail("DeclRefExpr to " + str(rk))
        if k == "MemberExpr":
            base = e["inner"][0]
            mname = e["name"]
            # static data member accessed through object?
            fd = self.ast.byid.get(e.get("referencedMemberDecl")) or {}
            isref = fd.get("type", {}).get("qualType", "").rstrip().endswith("&")   # reference member: stored as a pointer
            if e.get("isArrow"):
                r = "%s->%s" % (self.rv_ptr(base), mname)
            else:
                r = "%s.%s" % (self.lv_or_rv_record(base), mname)
            return "(*%s)" % r if isref else r
        if k == "CXXThisExpr":
            self.fail("this as lvalue")
        if k == "UnaryOperator":
            op = e["opcode"]
            if op == "*":
                return "(*%s)" % self.rv(e["inner"][0])
            if op in ("++", "--") and not e.get("isPostfix"):
                return "(*(%s))" % ("&" + self.lv(e["inner"][0]) + ", " + op + self.lv(e["inner"][0]) + ", &" + self.lv(e["inner"][0])) \
                    if False else "(%s%s)" % (op, self.lv(e["inner"][0]))
            if op in ("__real", "__imag", "__extension__"):
                self.fail("unary " + op)
            self.fail("unary %s as lvalue" % op)
        if k == "ArraySubscriptExpr":
            a, i = e["inner"]
            return "%s[%s]" % (self.rv(a), self.rv(i))
        if k == "ParenExpr":
            return "(%s)" % self.lv(e["inner"][0])
        if k in ("ImplicitCastExpr", "CXXStaticCastExpr", "CStyleCastExpr", "CXXConstCastExpr", "CXXFunctionalCastExpr", "CXXReinterpretCastExpr"):
            ck = e.get("castKind")
            sub = e["inner"][-1]
            if ck in ("DerivedToBase", "UncheckedDerivedToBase"):
                return self.derived_to_base_lv(e, sub)
            if ck in ("NoOp", "LValueBitCast"):
                if ck == "LValueBitCast":
                    b, p, a = self.em.ctype(e["type"]["qualType"])
                    return "(*(%s %s*)&%s)" % (b, p, self.lv(sub))
                return self.lv(sub)
            self.fail("cast %s as lvalue" % ck)
        if k in ("BinaryOperator", "CompoundAssignOperator"):
            op = e["opcode"]
            if op == "=" or op.endswith("=") and op not in ("==", "!=", "<=", ">="):
                # assignment yields lvalue in C++; in C use pointer trick
                l = e["inner"][0]
                t = e["type"]["qualType"]
                p = self.temp(t + " *")
                return "(*(%s = &%s, %s, %s))" % (p, self.lv(l), self.rv(e).replace(self.lv(l), "(*%s)" % p, 1) if False else self.assign_via(p, e), p)
            if op == ",":
                return "(*(%s, &%s))" % (self.rv(e["inner"][0], discard=True), self.lv(e["inner"][1]))
            self.fail("binary %s as lvalue" % op)
        if k in ("CallExpr", "CXXMemberCallExpr", "CXXOperatorCallExpr"):
            # call returning a reference -> pointer in C
            return "(*%s)" % self.call(e, want_ptr=True)
        if k == "ConditionalOperator":
            c, a, b = e["inner"]
            return "(*(%s ? &%s : &%s))" % (self.rv(c), self.lv(a), self.lv(b))
        if k in ("CXXConstructExpr", "CXXTemporaryObjectExpr", "CXXFunctionalCastExpr"):
            # temporary used as glvalue
            t = self.temp(e["type"]["qualType"])
            return "(*(%s, &%s))" % (self.construct_into("&" + t, e), t)
        if k == "StringLiteral":
            return e["value"]
        if k == "PredefinedExpr":
            return '""'
        if k == "CXXDefaultArgExpr":
            self.fail("default argument as lvalue")
        # prvalue used where an lvalue is needed: materialise
        t = self.temp(e["type"].get("desugaredQualType") or e["type"]["qualType"])
        return "(*(%s = %s, &%s))" % (t, self.rv(e), t)

    def assign_via(self, p, e):
        op = e["opcode"]
        r = e["inner"][1]
        if e.get("kind") == "CompoundAssignOperator":
            return self.compound_assign_text("(*%s)" % p, e)
        if self.em.is_record(e["type"]["qualType"]):
            return "(*%s) = %s" % (p, self.rv(r))
        return "(*%s) = %s" % (p, self.rv(r))

    def derived_to_base_lv(self, e, sub):
        depth = len(e.get("path", []) or [1])
        st = sub.get("type", {}).get("desugaredQualType") or sub.get("type", {}).get("qualType", "")
        if self.em.is_opaque(st):
            return self.lv(sub)
        s = self.lv(sub)
        for _ in range(max(1, depth)):
            s = "%s._base" % s
        return s

    def lv_or_rv_record(self, base):
        b = self.skip(base)
        if b.get("valueCategory") in ("lvalue", "xvalue") or b.get("kind") in ("DeclRefExpr", "MemberExpr", "ArraySubscriptExpr"):
            return self.lv(b)
        # prvalue record: needs a temp to take a member
        t = self.temp(b["type"].get("desugaredQualType") or b["type"]["qualType"])
        return "(*(%s = %s, &%s))" % (t, self.rv(b), t)

    def rv_ptr(self, e):
        """pointer-valued expression (for ->)"""
        e2 = self.skip(e)
        if e2.get("kind") == "CXXThisExpr":
            return "this_"
        return "(%s)" % self.rv(e2)

    def addr(self, e):
        """C expression for the address of C++ glvalue / temporary e (reference binding)"""
        e = self.skip(e)
        k = e.get("kind")
        if k == "UnaryOperator" and e.get("opcode") == "*":
            return self.rv(e["inner"][0])
        if k in ("CallExpr", "CXXMemberCallExpr", "CXXOperatorCallExpr"):
            rt = self.callee_ret_type(e)
            if rt and self.em.is_ref(rt):
                return self.call(e, want_ptr=True)
            t = self.temp(e["type"].get("desugaredQualType") or e["type"]["qualType"])
            return "(%s = %s, &%s)" % (t, self.rv(e), t)
        if k in ("CXXConstructExpr", "CXXTemporaryObjectExpr") or (k == "CXXFunctionalCastExpr" and self.em.is_record(e["type"]["qualType"])):
            t = self.temp(e["type"].get("desugaredQualType") or e["type"]["qualType"])
            return "(%s, &%s)" % (self.construct_into("&" + t, e), t)
        if e.get("valueCategory") == "prvalue" and k not in ("DeclRefExpr", "MemberExpr"):
            t = self.temp(e["type"].get("desugaredQualType") or e["type"]["qualType"])
            return "(%s = %s, &%s)" % (t, self.rv(e), t)
        lv = self.lv(e)
        if lv.startswith("(*") and lv.endswith(")") and balanced(lv[2:-1]):
            return lv[2:-1]
        return "&%s" % lv

    def rv_into_value(self, e, qt):
        return self.rv(e)

    def global_var(self, rd):
        gid = rd["id"]
        if gid in self.em.globals:
            return self.em.globals[gid][0]
        node = self.ast.byid.get(gid)
        q = self.ast.qual.get(gid, rd.get("name"))
        ext = self.em.externals.get(strip_ns(q)) or self.em.externals.get(rd.get("name"))
        if ext:
            return ext
        if node is None:
            self.fail("global %s not indexed" % rd.get("name"))
        cn = cident(q)
        qt = node["type"].get("desugaredQualType") or node["type"]["qualType"]
        inner = [c for c in node.get("inner", []) or [] if c.get("kind") not in ("FullComment",)]
        txt = "static " + self.em.decl(qt, cn)
        if inner and "const" in node["type"]["qualType"]:
            fe = FuncEmitter(self.em, self.n, self.cname)
            try:
                txt += " = " + fe.rv(inner[0])
            except Unsupported:
                pass
        self.em.globals[gid] = (cn, txt + ";")
        return cn

    # ------------- calls -------------
    def callee_decl(self, e):
        """the FunctionDecl node (with body if available) that a call expression designates"""
        k = e.get("kind")
        callee = e["inner"][0]
        c = callee
        while c.get("kind") in ("ImplicitCastExpr", "ParenExpr"):
            c = c["inner"][0]
        if c.get("kind") == "DeclRefExpr":
            return c["referencedDecl"]["id"], c["referencedDecl"], None
        if c.get("kind") == "MemberExpr":
            rid = c.get("referencedMemberDecl")
            return rid, self.ast.byid.get(rid, {}), c
        if c.get("kind") in ("CXXPseudoDestructorExpr",):
            return None, {}, None
        self.fail("callee kind " + str(c.get("kind")))

    def callee_ret_type(self, e):
        rid, rd, m = self.callee_decl(e)
        if rid is None:
            return None
        canon = self.ast.first.get(rid, rid)
        n = self.ast.funcs.get(canon) or self.ast.byid.get(rid) or rd
        if n and n.get("type"):
            if n.get("kind") in ("CXXConstructorDecl",):
                return "void"
            ft = n["type"]["qualType"]
            return self.em.ret_type({"kind": n.get("kind"), "type": {"qualType": ft}})
        return None

    def call_name_by_id(self, rid):
        canon = self.ast.first.get(rid, rid)
        q = strip_ns(self.ast.qual.get(canon, ""))
        node = self.ast.funcs.get(canon) or self.ast.byid.get(rid) or {}
        name = node.get("name", "")
        if q in self.em.extern_funcs:
            return self.em.extern_funcs[q]
        if self.em.extern_patterns and node.get("type"):
            ps = [strip_ns(norm_type(p["type"]["qualType"])) for p in self.ast.func_params(node)]
            sig = "%s(%s)" % (q, ", ".join(ps))
            for pat, cn in self.em.extern_patterns:
                if re.search(pat, sig):
                    return cn
        if canon in self.ast.funcs and not self.is_std_math_wrapper(q, node):
            cn = self.em.request(canon)
            self.callees.add(cn)
            self.stmt_calls.add(cn)
            return cn
        return self.external_name(q or name, node)

    def is_std_math_wrapper(self, q, node):
        return False

    def external_name(self, q, node):
        name = q.split("::")[-1]
        base = name
        if base.startswith("__builtin_"):
            base = base[len("__builtin_"):]
        if base in MATH_BUILTINS or name.startswith("__builtin_"):
            return "cxx2c_" + base
        if q in self.em.externals:
            return self.em.externals[q]
        if name in self.em.externals:
            return self.em.externals[name]
        self.fail("call to external function %r (no body in the AST, not in the externals list)" % q)

    def call_name(self, node):
        return self.call_name_by_id(node["id"])

    def param_types_of(self, rid, rd):
        canon = self.ast.first.get(rid, rid)
        n = self.ast.funcs.get(canon) or self.ast.byid.get(rid)
        if n is not None:
            ps = self.ast.func_params(n)
            if ps or "(" in n.get("type", {}).get("qualType", ""):
                variadic = "..." in n.get("type", {}).get("qualType", "")
                return [p["type"]["qualType"] for p in ps], [p for p in ps]
        ft = rd.get("type", {}).get("qualType", "")
        m = re.search(r"\((.*)\)", ft)
        if m:
            return split_top(m.group(1)) if m.group(1).strip() else [], None
        return [], None

    def args_text(self, args, rid, rd):
        ptypes, pnodes = self.param_types_of(rid, rd)
        out = []
        for i, a in enumerate(args):
            if a.get("kind") == "CXXDefaultArgExpr":
                # default argument: take the initialiser from the parameter declaration
                if pnodes is None or i >= len(pnodes):
                    self.fail("default argument without parameter node")
                pin = [c for c in pnodes[i].get("inner", []) or [] if c.get("kind") != "FullComment"]
                if not pin:
                    # defaults live on an earlier declaration
                    first = self.ast.byid.get(self.ast.first.get(rid, rid))
                    if first:
                        fps = self.ast.func_params(first)
                        if i < len(fps):
                            pin = [c for c in fps[i].get("inner", []) or [] if c.get("kind") != "FullComment"]
                if not pin:
                    self.fail("default argument initialiser not found")
                a = pin[0]
            pt = ptypes[i] if i < len(ptypes) else None
            if pt is not None and self.em.is_ref(pt):
                out.append(self.addr(a))
            else:
                out.append(self.rv(a))
        return out

    def call(self, e, want_ptr=False):
        k = e.get("kind")
        rid, rd, mexpr = self.callee_decl(e)
        if rid is None:
            return "((void)0)"
        canon = self.ast.first.get(rid, rid)
        node = self.ast.funcs.get(canon) or self.ast.byid.get(rid) or rd
        args = e["inner"][1:]
        nm = strip_ns(self.ast.qual.get(canon, rd.get("name", "")))
        if nm.split("::")[-1] == "__builtin_expect":
            return "(%s)" % self.rv(args[0])
        if nm.split("::")[-1] in ("__builtin_unreachable",):
            return "((void)0)"
        is_method = node.get("kind") in ("CXXMethodDecl", "CXXConversionDecl", "CXXDestructorDecl") and node.get("storageClass") != "static"
        if node.get("kind") == "CXXDestructorDecl":
            return "((void)0)"
        fname = self.call_name_by_id(rid)
        argt = []
        if k == "CXXMemberCallExpr":
            obj = mexpr["inner"][0]
            if is_method:
                if mexpr.get("isArrow"):
                    argt.append(self.rv_ptr(obj))
                else:
                    argt.append(self.addr(obj))
            argt += self.args_text(args, rid, rd)
        elif k == "CXXOperatorCallExpr":
            if is_method:
                argt.append(self.addr(args[0]))
                argt += self.args_text(args[1:], rid, rd)
            else:
                argt += self.args_text(args, rid, rd)
        else:
            if is_method:
                self.fail("plain call to non-static method")
            argt += self.args_text(args, rid, rd)
        txt = "%s(%s)" % (fname, ", ".join(argt))
        rt = self.callee_ret_type(e)
        if rt and self.em.is_ref(rt) and not want_ptr:
            return "(*%s)" % txt
        return txt

    def ctor_of(self, e):
        ct = e.get("ctorType", {}).get("qualType")
        rec_t = tkey((self.em.strip_cv(self.em.resolve_typedef(self.em.strip_cv(re.sub(r"(\[\d+\])+$", "", e["type"].get("desugaredQualType") or e["type"]["qualType"]))))))
        rec = self.ast.records.get(rec_t)
        if rec is None:
            return None
        cands = []
        for c in rec.get("inner", []) or []:
            if c.get("kind") == "CXXConstructorDecl" and c.get("type", {}).get("qualType") == ct:
                cands.append(c)
            elif c.get("kind") == "FunctionTemplateDecl":
                for s in c.get("inner", []) or []:
                    if s.get("kind") == "CXXConstructorDecl" and s.get("type", {}).get("qualType") == ct and \
                            any(x.get("kind") == "TemplateArgument" for x in s.get("inner", []) or []):
                        cands.append(s)
        if not cands:
            return None
        # prefer one with a body
        for c in cands:
            canon = self.ast.first.get(c["id"], c["id"])
            if canon in self.ast.funcs:
                return self.ast.funcs[canon]
        return cands[0]

    def ctor_is_empty(self, ctor):
        has_init = any(c.get("kind") == "CXXCtorInitializer" for c in ctor.get("inner", []) or [])
        body = [c for c in ctor.get("inner", []) or [] if c.get("kind") == "CompoundStmt"]
        if ctor.get("isImplicit") or ctor.get("explicitlyDefaulted"):
            return True
        if not body:
            return False
        return not has_init and not (body[0].get("inner") or [])

    def construct_into(self, target_ptr, e):
        """expression text that constructs object *target_ptr from construct-expression e"""
        e0 = e
        if e.get("kind") == "CXXFunctionalCastExpr":
            e = self.skip(e["inner"][0])
            if e.get("kind") not in ("CXXConstructExpr", "CXXTemporaryObjectExpr"):
                return "(*%s = %s)" % (target_ptr, self.rv(e))
        args = [a for a in e.get("inner", []) or []]
        qt = e["type"].get("desugaredQualType") or e["type"]["qualType"]
        if tkey(self.em.strip_cv(qt)) in self.em.opaque:
            # library type modelled by a plain C struct: default construction zeroes, copy construction copies
            if not args:
                return "memset(%s, 0, sizeof(*%s))" % (target_ptr, target_ptr)
            if len(args) == 1:
                return "(*%s = %s)" % (target_ptr, self.rv(args[0]))
            self.fail("opaque type %s constructed with %d arguments" % (qt, len(args)))
        ctor = self.ctor_of(e)
        if ctor is None:
            self.fail("constructor not found for %s / %s" % (qt, e.get("ctorType")))
        trivial_copy = (ctor.get("isImplicit") or ctor.get("explicitlyDefaulted"))
        if trivial_copy or self.ast.first.get(ctor["id"], ctor["id"]) not in self.ast.funcs:
            if len(args) == 0:
                if e.get("zeroing") or e.get("requiresZeroInitialization"):
                    return "memset(%s, 0, sizeof(*%s))" % (target_ptr, target_ptr)
                return "((void)0)"
            if len(args) == 1 and self.em.is_record(args[0]["type"]["qualType"]):
                return "(*%s = %s)" % (target_ptr, self.rv(args[0]))
            self.fail("implicit constructor with arguments for " + qt)
        if e.get("elidable") and len(args) == 1:
            # copy elision: construct directly from the source expression
            a = self.skip(args[0])
            if a.get("kind") in ("CXXConstructExpr", "CXXTemporaryObjectExpr"):
                return self.construct_into(target_ptr, a)
            return "(*%s = %s)" % (target_ptr, self.rv(a))
        if self.ctor_is_empty(ctor) and not args:
            return "((void)0)"
        fname = self.call_name(ctor)
        argt = [target_ptr] + self.args_text(args, ctor["id"], ctor)
        return "%s(%s)" % (fname, ", ".join(argt))

    # ------------- rvalues -------------
    def compound_assign_text(self, ltxt, e):
        op = e["opcode"][:-1]
        r = e["inner"][1]
        lt = self.em.strip_cv(e["inner"][0]["type"].get("desugaredQualType") or e["inner"][0]["type"]["qualType"])
        ct = self.em.strip_cv(e.get("computeResultType", {}).get("qualType", lt))
        ct = self.em.strip_cv(self.em.resolve_typedef(ct))
        rtxt = self.rv(r)
        if ct in ARITH_TYPES and op in ARITH_MACRO:
            b, _, _ = self.em.ctype(lt)
            lhs_conv = ltxt if lt == ct else "(%s)%s" % (ct, ltxt)
            return "%s = (%s)%s(%s, %s, %s)" % (ltxt, b, ARITH_MACRO[op], ct, lhs_conv, rtxt)
        return "%s %s= %s" % (ltxt, op, rtxt)

    def rv(self, e, discard=False):
        e = self.skip(e)
        k = e.get("kind")
        if k == "IntegerLiteral":
            v = str(e["value"])
            t = self.em.strip_cv(e["type"]["qualType"])
            suf = {"unsigned int": "u", "long": "l", "unsigned long": "ul", "long long": "ll", "unsigned long long": "ull"}.get(t, "")
            return v + suf
        if k == "FloatingLiteral":
            return self.lit_float(e)
        if k == "CXXBoolLiteralExpr":
            return "1" if e["value"] else "0"
        if k == "CharacterLiteral":
            return str(e["value"])
        if k == "StringLiteral":
            return e["value"]
        if k == "CXXNullPtrLiteralExpr" or k == "GNUNullExpr":
            return "0"
        if k == "ParenExpr":
            return "(%s)" % self.rv(e["inner"][0])
        if k == "CXXThisExpr":
            return "this_"
        if k in ("DeclRefExpr", "MemberExpr", "ArraySubscriptExpr"):
            if k == "MemberExpr" and e.get("type", {}).get("qualType") == "<bound member function type>":
                self.fail("bound member function outside call")
            return self.lv(e)
        if k == "UnaryOperator":
            op = e["opcode"]
            sub = e["inner"][0]
            if op == "&":
                return self.addr(sub)
            if op == "*":
                return "(*%s)" % self.rv(sub)
            if op in ("++", "--"):
                l = self.lv(sub)
                return "(%s%s)" % (l, op) if e.get("isPostfix") else "(%s%s)" % (op, l)
            if op == "-":
                t = self.em.strip_cv(self.em.resolve_typedef(self.em.strip_cv(e["type"].get("desugaredQualType") or e["type"]["qualType"])))
                if t in ARITH_TYPES:
                    return "IM_NEG(%s, %s)" % (t, self.rv(sub))
                return "(-%s)" % self.rv(sub)
            if op in ("+", "!", "~"):
                return "(%s%s)" % (op, self.rv(sub))
            if op == "__extension__":
                return self.rv(sub)
            self.fail("unary " + op)
        if k == "BinaryOperator":
            op = e["opcode"]
            l, r = e["inner"]
            if op == "=":
                lt = l["type"].get("desugaredQualType") or l["type"]["qualType"]
                return "%s = %s" % (self.lv(l), self.rv(r)) if discard else "(%s = %s)" % (self.lv(l), self.rv(r))
            if op == ",":
                return "(%s, %s)" % (self.rv(l, discard=True), self.rv(r))
            if op in (".*", "->*"):
                self.fail("pointer to member")
            t = self.em.strip_cv(self.em.resolve_typedef(self.em.strip_cv(e["type"].get("desugaredQualType") or e["type"]["qualType"])))
            if op in ARITH_MACRO and t in ARITH_TYPES:
                return "%s(%s, %s, %s)" % (ARITH_MACRO[op], t, self.rv(l), self.rv(r))
            return "(%s %s %s)" % (self.rv(l), op, self.rv(r))
        if k == "CompoundAssignOperator":
            l = e["inner"][0]
            txt = self.compound_assign_text(self.lv(l), e)
            return txt if discard else "(%s)" % txt
        if k == "ConditionalOperator":
            c, a, b = e["inner"]
            return "(%s ? %s : %s)" % (self.rv(c), self.rv(a), self.rv(b))
        if k in ("ImplicitCastExpr", "CXXStaticCastExpr", "CStyleCastExpr", "CXXFunctionalCastExpr", "CXXReinterpretCastExpr", "CXXConstCastExpr", "BuiltinBitCastExpr"):
            return self.cast(e)
        if k in ("CallExpr", "CXXMemberCallExpr", "CXXOperatorCallExpr"):
            return self.call(e)
        if k in ("CXXConstructExpr", "CXXTemporaryObjectExpr"):
            qt = e["type"].get("desugaredQualType") or e["type"]["qualType"]
            if not self.em.is_record(qt):
                args = e.get("inner", []) or []
                return self.rv(args[0]) if args else "0"
            t = self.temp(qt)
            return "(%s, %s)" % (self.construct_into("&" + t, e), t)
        if k == "CXXScalarValueInitExpr" or k == "ImplicitValueInitExpr":
            return self.em.zero_of(e["type"].get("desugaredQualType") or e["type"]["qualType"])
        if k == "CXXDefaultArgExpr":
            self.fail("default argument outside call")
        if k == "CXXThrowExpr":
            self.fail("throw inside expression")
        if k == "UnaryExprOrTypeTraitExpr":
            if e.get("name") == "sizeof":
                if "argType" in e:
                    b, p, a = self.em.ctype(e["argType"]["qualType"])
                    return "sizeof(%s %s%s)" % (b, p, a)
                return "sizeof(%s)" % self.rv(e["inner"][0])
            self.fail("type trait " + str(e.get("name")))
        if k == "CXXNewExpr":
            if not e.get("isArray"):
                self.fail("scalar new")
            qt = e["type"]["qualType"]
            b, p, a = self.em.ctype(qt)
            size = self.rv(e["inner"][0])
            return "((%s %s)malloc((unsigned long)(%s) * sizeof(%s %s)))" % (b, p, size, b, p[:-1])
        if k == "CXXDeleteExpr":
            return "free(%s)" % self.rv(e["inner"][0])
        if k == "SizeOfPackExpr":
            return str(find_value(e) or 0)
        if k == "InitListExpr":
            qt = e["type"].get("desugaredQualType") or e["type"]["qualType"]
            t = self.temp(qt)
            return "(%s, %s)" % (self.initlist_expr(t, qt, e), t)
        if k == "OpaqueValueExpr":
            return self.rv(e["inner"][0])
        if k == "BinaryConditionalOperator":
            self.fail("?: binary conditional")
        if k == "TypeTraitExpr" or k == "CXXNoexceptExpr":
            v = find_value(e)
            return "1" if v in (True, "true", 1) else "0"
        if k == "PredefinedExpr":
            return '""'
        if k == "StmtExpr":
            self.fail("statement expression")
        if k == "LambdaExpr":
            self.fail("lambda")
        self.fail("unsupported expression kind %s" % k)

    def initlist_expr(self, t, qt, e):
        s = self.initlist_into(t, qt, e)
        parts = [p.strip() for p in s.split(";") if p.strip()]
        return ", ".join(parts) if parts else "((void)0)"

    def cast(self, e):
        ck = e.get("castKind")
        sub = e["inner"][-1] if e.get("kind") != "CXXFunctionalCastExpr" else e["inner"][0]
        qt = e["type"].get("desugaredQualType") or e["type"]["qualType"]
        if ck in ("LValueToRValue", "NoOp", "FunctionToPointerDecay", "BuiltinFnToFnPtr", "ArrayToPointerDecay", "AtomicToNonAtomic"):
            if ck == "LValueToRValue":
                return self.lv(sub)
            return self.rv(sub)
        if ck in ("IntegralCast", "FloatingCast", "IntegralToFloating", "FloatingToIntegral", "BooleanToSignedIntegral",
                  "PointerToIntegral", "IntegralToPointer", "BitCast"):
            b, p, a = self.em.ctype(qt)
            return "((%s %s)%s)" % (b, p, self.rv(sub))
        if ck in ("IntegralToBoolean", "FloatingToBoolean", "PointerToBoolean"):
            return "(%s != 0)" % self.rv(sub)
        if ck == "NullToPointer":
            return "0"
        if ck == "ToVoid":
            return "((void)%s)" % self.rv(sub)
        if ck in ("DerivedToBase", "UncheckedDerivedToBase"):
            if self.em.strip_cv(qt).endswith("*"):
                depth = len(e.get("path", []) or [1])
                st = sub.get("type", {}).get("desugaredQualType") or sub.get("type", {}).get("qualType", "")
                if self.em.is_opaque(st.rstrip(" *")):
                    return "((void *)%s)" % self.rv(sub)
                s = self.rv(sub)
                for _ in range(depth):
                    s = "(&(%s)->_base)" % s
                return s
            return self.derived_to_base_lv(e, sub)
        if ck in ("ConstructorConversion", "UserDefinedConversion"):
            return self.rv(sub)
        if ck == "Dependent":
            self.fail("dependent cast")
        self.fail("cast kind %s" % ck)


def balanced(s):
    d = 0
    for ch in s:
        if ch == "(":
            d += 1
        elif ch == ")":
            d -= 1
            if d < 0:
                return False
    return d == 0


# ---------------------------------------------------------------------------
# driver
# ---------------------------------------------------------------------------
def clang_ast(driver, includes, defines=(), std="c++17", cache_dir=None, extra=()):
    base = ["clang++", "-std=" + std, "-fsyntax-only", "-Wno-everything"] + ["-I" + i for i in includes] + ["-D" + d for d in defines] + list(extra)
    key = None
    if cache_dir:
        pp = subprocess.run(base[:1] + ["-E", "-P"] + base[1:] + [driver], stdout=subprocess.PIPE, stderr=subprocess.PIPE)
        if pp.returncode != 0:
            raise Unsupported("clang preprocessing failed: " + pp.stderr.decode()[-1500:])
        key = hashlib.sha256(pp.stdout + std.encode()).hexdigest()
    p = subprocess.run(base + ["-Xclang", "-ast-dump=json", driver], stdout=subprocess.PIPE, stderr=subprocess.PIPE)
    if p.returncode != 0:
        raise Unsupported("clang failed on driver: " + p.stderr.decode()[-2000:])
    return json.loads(p.stdout), key


def extract(driver, wanted, includes, defines=(), std="c++17", externals=None, opaque=None, type_map=None,
            extern_funcs=None, header_comment="", opaque_patterns=None, extern_patterns=None):
    root, _ = clang_ast(driver, includes, defines, std)
    ast = AST(root)
    em = Emitter(ast, externals=externals, opaque=opaque, type_map=type_map, extern_funcs=extern_funcs)
    em.opaque_patterns = list(opaque_patterns or [])
    em.extern_patterns = list(extern_patterns or [])
    names = {}
    for w in wanted:
        # "a || b": alternatives (e.g. a parameter taken by value or by const reference); the result is
        # registered under the first spelling
        alts = [x.strip() for x in w.split("||")]
        canon, err = None, None
        for a in alts:
            try:
                canon = ast.find(a)
                break
            except Unsupported as e:
                err = err or e
        if canon is None:
            raise err
        names[alts[0]] = em.request(canon)
    em.run()
    return em, names


if __name__ == "__main__":
    import argparse
    ap = argparse.ArgumentParser()
    ap.add_argument("driver")
    ap.add_argument("-I", action="append", default=[])
    ap.add_argument("-f", action="append", default=[])
    ap.add_argument("--list", default=None)
    a = ap.parse_args()
    if a.list:
        root, _ = clang_ast(a.driver, a.I)
        ast = AST(root)
        ast.build_keys()
        for k in sorted(ast.keys):
            if a.list in k:
                print(k)
        sys.exit(0)
    em, names = extract(a.driver, a.f, a.I)
    print("\n".join(em.output()))
    for w, n in names.items():
        print("// %s -> %s" % (w, n), file=sys.stderr)


# ---------------------------------------------------------------------------
# shims: call the REAL C++ function through a C interface with the extracted
# function's C prototype (used for the native differential validation of the
# extractor and for replaying counterexamples against the real code)
# ---------------------------------------------------------------------------
EXC_CATCH = [("std::domain_error", "CXX2C_E_std_domain_error"), ("std::invalid_argument", "CXX2C_E_std_invalid_argument"),
             ("std::out_of_range", "CXX2C_E_std_out_of_range"), ("std::length_error", "CXX2C_E_std_length_error"),
             ("std::logic_error", "CXX2C_E_std_logic_error"), ("std::overflow_error", "CXX2C_E_std_overflow_error"),
             ("std::runtime_error", "CXX2C_E_std_runtime_error")]


def make_shims(em, cnames=None):
    """returns (cpp_text, c_forwarders_text).  Only for functions whose parameter and return
    types are scalars, records (by value / reference / pointer)."""
    ast = em.ast
    cpp = ['#include <new>', '#include <stdexcept>', '#include <cstring>',
           'extern "C" int cxx2c_thrown_real;', 'int cxx2c_thrown_real = 0;',
           'using namespace IMATH_INTERNAL_NAMESPACE;', '']
    fwd = ['/* forwarders: extracted-C prototypes implemented by the real C++ functions */',
           'extern int cxx2c_thrown_real;', '']
    inv = {v: k for k, v in em.fn_done.items()}
    for cname in (cnames or em.fn_order):
        canon = inv[cname]
        n = ast.funcs[canon]
        kind = n.get("kind")
        params = ast.func_params(n)
        ptypes = [p["type"]["qualType"] for p in params]
        cls = em.class_of(n) if kind != "FunctionDecl" else None
        is_method = em.is_method(n)
        rt = em.ret_type(n)
        ft = n["type"]["qualType"]
        is_const = bool(re.search(r"\)\s*const\b", ft))
        # ---- C++ side
        sig = 'extern "C" void real_%s(void **a, void *r)' % cname
        body = []
        argx = []
        off = 1 if is_method else 0
        for i, pt in enumerate(ptypes):
            base = em.unref(pt)
            argx.append("static_cast<%s>(*(%s *)a[%d])" % (pt if em.is_ref(pt) else base, re.sub(r"^const\s+", "", base).replace(" const", "") if not base.rstrip().endswith("*") else base, i + off))
        q = ast.qual.get(canon, n.get("name"))
        name = n.get("name")
        if kind == "CXXConstructorDecl":
            call = "new (a[0]) %s(%s)" % (cls, ", ".join(argx))
        elif is_method:
            obj = "(*(%s%s *)a[0])" % ("const " if is_const else "", cls)
            call = "%s.%s(%s)" % (obj, ("operator " + rt) if kind == "CXXConversionDecl" else name, ", ".join(argx))
        else:
            ta = targs_of(n) if kind == "FunctionDecl" else []
            scope = q[: -len(name)] if q.endswith(name) else ""
            if name.startswith("operator") and not scope.rstrip(":").endswith(">") and kind == "FunctionDecl":
                call = "%s%s(%s)" % (scope, name, ", ".join(argx))
            else:
                call = "%s%s(%s)" % (scope, name, ", ".join(argx))
        if kind in ("CXXConstructorDecl",) or rt.strip() == "void":
            stmt = call + ";"
        elif em.is_ref(rt):
            stmt = "*(const void **)r = (const void *)&(%s);" % call
        else:
            stmt = "{ auto _v = %s; std::memcpy(r, (const void *)&_v, sizeof(_v)); }" % (call,)
        body.append("  cxx2c_thrown_real = 0;")
        body.append("  try { %s }" % stmt)
        for ex, code in EXC_CATCH:
            body.append("  catch (const %s &) { cxx2c_thrown_real = %d; }" % (ex, EXC_CODE[code]))
        body.append("  catch (...) { cxx2c_thrown_real = 99; }")
        cpp.append("// %s" % em.fn_src[cname]["key"])
        cpp.append(sig + "\n{\n" + "\n".join(body) + "\n}\n")
        # ---- C side
        proto = em.fn_proto[cname]
        cargs = []
        if is_method:
            cargs.append("this_")
        for pi, (p, pt) in enumerate(zip(params, ptypes)):
            pn = p.get("name") or ("_unnamed%d" % (pi + (1 if is_method else 0)))
            cargs.append(pn if em.is_ref(pt) else "&" + pn)
        lines = [proto, "{", "    void *_a[] = { %s };" % (", ".join("(void *)" + x for x in cargs) if cargs else "0")]
        lines.append("    void real_%s(void **, void *);" % cname)
        if kind == "CXXConstructorDecl" or rt.strip() == "void":
            lines.append("    real_%s(_a, 0); cxx2c_thrown = cxx2c_thrown_real;" % cname)
        else:
            lines.append("    %s; memset(&_r, 0, sizeof(_r));" % em.decl(rt, "_r"))
            lines.append("    real_%s(_a, &_r); cxx2c_thrown = cxx2c_thrown_real;" % cname)
            lines.append("    return _r;")
        lines.append("}")
        fwd.append("\n".join(lines) + "\n")
    return "\n".join(cpp), "\n".join(fwd)


EXC_CODE = {"CXX2C_E_std_domain_error": 1, "CXX2C_E_std_invalid_argument": 2, "CXX2C_E_std_logic_error": 3,
            "CXX2C_E_std_out_of_range": 4, "CXX2C_E_std_runtime_error": 5, "CXX2C_E_std_overflow_error": 6,
            "CXX2C_E_std_length_error": 7}
