#!/usr/bin/env python3
"""Plumbing around cxx2c: run an extraction (driver TU + list of wanted functions)
against /repo's working tree, cache it by content hash, generate the shims that call
the real C++ functions, and differentially validate the extracted C against the real
code natively (supporting evidence; a mismatch is 'extraction broken', exit 2)."""
import concurrent.futures as cf
import hashlib
import json
import os
import re
import subprocess
import sys

from . import cxx2c
from .core import VERIF, REPO, BUILD, Undecided, make_config, sh

CACHE = os.path.join(VERIF, ".cache", "x")
PY_INC = ["/usr/include/python3.11"]


def _sha(*parts):
    h = hashlib.sha256()
    for p in parts:
        h.update(p if isinstance(p, bytes) else str(p).encode())
        h.update(b"\0")
    return h.hexdigest()


class Extraction:
    def __init__(self, name):
        self.name = name
        self.c_path = None
        self.names = {}
        self.info = {}
        self.shim_cpp = None
        self.fwd_c = None
        self.diff = {}
        self.driver = None
        self.includes = []
        self.structs = {}
        self.may_throw = []

    def cname(self, spec):
        return self.names[spec]


def includes_for(extra=()):
    # stubs first: an empty <x86intrin.h> (half.h includes it only for the F16C path) keeps the AST small
    return [os.path.join(VERIF, "stubs"), os.path.join(REPO, "src", "Imath"), make_config()] + list(extra)


def run_extraction(name, driver_text, wanted, extra_includes=(), defines=(), std="c++17", externals=None,
                   opaque=None, type_map=None, extern_funcs=None, outdir=None, diff=True, diff_skip=(),
                   opaque_patterns=None, extern_patterns=None):
    """returns an Extraction; raises Undecided on any must-fire failure"""
    outdir = outdir or os.path.join(BUILD, "x")
    os.makedirs(outdir, exist_ok=True)
    os.makedirs(CACHE, exist_ok=True)
    incs = includes_for(extra_includes)
    drv = os.path.join(outdir, name + ".driver.cpp")
    if not os.path.exists(drv) or open(drv).read() != driver_text:
        open(drv, "w").write(driver_text)
    # content key: the preprocessed driver (changes whenever any included header changes)
    pp = subprocess.run(["clang++", "-std=" + std, "-E", "-P", "-Wno-everything"] + ["-I" + i for i in incs]
                        + ["-D" + d for d in defines] + [drv], stdout=subprocess.PIPE, stderr=subprocess.PIPE)
    if pp.returncode != 0:
        raise Undecided("extraction: clang cannot preprocess driver %s: %s" % (name, pp.stderr.decode()[-1500:]))
    selfsha = _sha(open(cxx2c.__file__, "rb").read(), open(__file__, "rb").read())
    key = _sha(name, pp.stdout, std, json.dumps(sorted(wanted)), json.dumps(externals or {}, sort_keys=True),
               json.dumps(opaque or {}, sort_keys=True), json.dumps(type_map or {}, sort_keys=True),
               json.dumps(extern_funcs or {}, sort_keys=True), selfsha, str(diff), json.dumps(sorted(diff_skip)),
               json.dumps(opaque_patterns or []), json.dumps(extern_patterns or []))
    cfile = os.path.join(CACHE, key + ".json")
    ex = Extraction(name)
    ex.driver = drv
    ex.includes = incs
    ex.defines = list(defines)
    if os.path.exists(cfile):
        d = json.load(open(cfile))
    else:
        try:
            em, names = cxx2c.extract(drv, wanted, incs, defines, std, externals=externals, opaque=opaque,
                                      type_map=type_map, extern_funcs=extern_funcs, opaque_patterns=opaque_patterns,
                                      extern_patterns=extern_patterns)
            hdr, text = em.output("driver: %s; wanted: %d functions" % (name, len(wanted)), hname=name + ".h")
            cpp, fwd = cxx2c.make_shims(em)
            leafs = {s: struct_leafs(em, s) for s in em.struct_order}
        except cxx2c.Unsupported as e:
            raise Undecided("extraction (%s): %s" % (name, e))
        d = {"c": text, "h": hdr, "names": names, "info": em.fn_src, "cpp": cpp, "fwd": fwd, "protos": em.fn_proto,
             "order": em.fn_order, "leafs": leafs, "may_throw": sorted(em.may_throw), "pkinds": getattr(em, "fn_pkinds", {})}
        json.dump(d, open(cfile, "w"))
    ex.c_path = os.path.join(outdir, name + ".c")
    ex.shim_cpp = os.path.join(outdir, name + ".shim.cpp")
    ex.fwd_c = os.path.join(outdir, name + ".fwd.c")
    ex.h_path = os.path.join(outdir, name + ".h")
    _write(ex.h_path, d["h"])
    _write(ex.c_path, d["c"])
    _write(ex.shim_cpp, '#include "%s"\n' % os.path.basename(drv) + d["cpp"])
    _write(ex.fwd_c, '#include "%s.h"\n' % name + d["fwd"])
    ex.names = d["names"]
    ex.info = d["info"]
    ex.protos = d["protos"]
    ex.order = d["order"]
    ex.leafs = d["leafs"]
    ex.may_throw = d.get("may_throw", [])
    ex.pkinds = d.get("pkinds", {})
    if diff:
        dfile = os.path.join(CACHE, key + ".diff.json")
        seed = int(os.environ.get("VERIF_SEED", "0") or 0)
        if os.path.exists(dfile) and seed == 0:
            ex.diff = json.load(open(dfile))
        else:
            ex.diff = differential(ex, outdir, seed, diff_skip)
            if seed == 0:
                json.dump(ex.diff, open(dfile, "w"))
        if ex.diff.get("mismatches"):
            raise Undecided("extraction broken (%s): extracted C disagrees with the real C++ natively: %s" % (
                name, json.dumps(ex.diff["mismatches"][:3])))
    return ex


def _write(p, txt):
    if not os.path.exists(p) or open(p).read() != txt:
        open(p, "w").write(txt)


# ---------------------------------------------------------------------------
def struct_leafs(em, sname):
    """flattened list of (path, ctype) leaves of an emitted struct, parsed from its C text"""
    out = []

    def walk(sn, prefix):
        if sn not in em.structs:
            out.append((prefix + "?", "opaque"))
            return
        txt = em.structs[sn]
        for m in re.finditer(r"^\s+(.*?);\s*$", txt, re.M):
            d = m.group(1).strip()
            bf = None
            mm = re.match(r"^(.*?)\s*:\s*(\d+)$", d)
            if mm:
                d, bf = mm.group(1).strip(), int(mm.group(2))
            mm = re.match(r"^(struct \w+|[\w ]+?)\s*(\**)\s*(\w+)((\[\d+\])*)$", d)
            if not mm:
                out.append((prefix + "?", "opaque"))
                continue
            base, ptr, name, arr = mm.group(1).strip(), mm.group(2), mm.group(3), mm.group(4)
            dims = [int(x) for x in re.findall(r"\[(\d+)\]", arr)]
            idxs = [""]
            for dmn in dims:
                idxs = [i + "[%d]" % k for i in idxs for k in range(dmn)]
            for ix in idxs:
                path = prefix + name + ix
                if ptr:
                    out.append((path, "ptr"))
                elif base.startswith("struct "):
                    walk(base[7:], path + ".")
                elif bf is not None:
                    out.append((path, "bitfield:%d:%s" % (bf, base)))
                else:
                    out.append((path, base))
    walk(sname, "")
    return out


POOLS = {
    "float": "vf_pool_f", "double": "vf_pool_d", "int": "vf_pool_i", "unsigned int": "vf_pool_u", "short": "vf_pool_s",
    "unsigned short": "vf_pool_us", "long": "vf_pool_l", "unsigned long": "vf_pool_ul", "long long": "vf_pool_l",
    "unsigned long long": "vf_pool_ul", "unsigned char": "vf_pool_uc", "signed char": "vf_pool_sc", "char": "vf_pool_sc",
    "_Bool": "vf_pool_b",
}

DIFF_PRELUDE = r'''
#include <stdio.h>
#include <stdlib.h>
#include <string.h>
#include <stdint.h>
#include <math.h>
#include <float.h>
static uint64_t vf_rs = 88172645463325252ull;
static uint64_t vf_rnd (void) { vf_rs ^= vf_rs << 13; vf_rs ^= vf_rs >> 7; vf_rs ^= vf_rs << 17; return vf_rs; }
static float vf_pool_f (void)
{
    static const float p[] = { 0.0f, -0.0f, 1.0f, -1.0f, 0.5f, 2.0f, 3.0f, -7.25f, 1e-3f, 1e-20f, 1e-38f, 1e-42f, 1.4e-45f, 1e19f, 3e38f,
                               FLT_MAX, -FLT_MAX, FLT_MIN, FLT_EPSILON, 65504.0f, 0.1f, 1.5f, 100.0f, 1e10f, INFINITY, -INFINITY, NAN };
    uint64_t r = vf_rnd ();
    if (r % 4 == 0) return p[(r >> 8) % (sizeof p / sizeof p[0])];
    if (r % 4 == 1) { union { uint32_t u; float f; } x; x.u = (uint32_t) (r >> 16); return x.f; }
    return (float) ((double) ((int64_t) (r >> 20) % 2000001 - 1000000) / 1000.0);
}
static double vf_pool_d (void)
{
    static const double p[] = { 0.0, -0.0, 1.0, -1.0, 0.5, 2.0, 3.0, -7.25, 1e-3, 1e-200, 1e-308, 1e-320, 4.9e-324, 1e150, 1e308,
                                DBL_MAX, -DBL_MAX, DBL_MIN, DBL_EPSILON, 65504.0, 0.1, 1.5, 100.0, 1e10, INFINITY, -INFINITY, NAN };
    uint64_t r = vf_rnd ();
    if (r % 4 == 0) return p[(r >> 8) % (sizeof p / sizeof p[0])];
    if (r % 4 == 1) { union { uint64_t u; double f; } x; x.u = vf_rnd (); return x.f; }
    return (double) ((int64_t) (r >> 20) % 2000001 - 1000000) / 1000.0;
}
static long vf_small (void) { uint64_t r = vf_rnd (); return (long) (r >> 16) % 41 - 20; }
static int vf_pool_i (void) { uint64_t r = vf_rnd (); return (r % 4 < 2) ? (int) ((r >> 8) % 4) : ((r % 4 == 2) ? (int) vf_small () : (int) ((r >> 8) % 65536) - 32768); }
static int vf_pool_iparam (void) { return (int) ((vf_rnd () >> 16) & 1); } /* int PARAMETERS are indices in this library: stay in range of the smallest dimension */
static unsigned vf_pool_u (void) { uint64_t r = vf_rnd (); return (r % 3) ? (unsigned) (vf_small () + 20) : (unsigned) (r >> 16); }
static short vf_pool_s (void) { return (short) (vf_small () * 3); }
static unsigned short vf_pool_us (void) { uint64_t r = vf_rnd (); return (unsigned short) (r >> 16); }
static long vf_pool_l (void) { uint64_t r = vf_rnd (); return (r % 3) ? vf_small () : (long) ((r >> 8) % 2000001) - 1000000; }
static unsigned long vf_pool_ul (void) { uint64_t r = vf_rnd (); return (r % 3) ? (unsigned long) (vf_small () + 20) : (unsigned long) (r >> 24); }
static unsigned char vf_pool_uc (void) { return (unsigned char) (vf_rnd () >> 16); }
static signed char vf_pool_sc (void) { return (signed char) (vf_small ()); }
static _Bool vf_pool_b (void) { return (vf_rnd () >> 16) & 1; }
#define VF_EQ_FP(a, b) (((a) != (a) && (b) != (b)) || (memcmp (&(a), &(b), sizeof (a)) == 0))
static int vf_bad, vf_cases, vf_trapped;
#include <signal.h>
#include <setjmp.h>
static sigjmp_buf vf_jb;
static void vf_fpe (int sig) { (void) sig; siglongjmp (vf_jb, 1); }
'''


def differential(ex, outdir, seed, skip=()):
    """Compile the extracted C (gcc -O0) and the real C++ (g++ -O0, through the shims) and
    compare them on pool + random inputs.  Functions with raw-pointer or opaque parameters
    are skipped and listed."""
    tested, skipped = [], []
    drv = [DIFF_PRELUDE, "#define cxx2c_thrown_real cxx2c_thrown_real_", "int cxx2c_thrown_real;"]
    # extracted code, renamed: ext_<name>
    ext_txt = open(ex.c_path).read()
    fwd_txt = open(ex.fwd_c).read()
    for cn in ex.order:
        fwd_txt = re.sub(r"\b%s\(" % re.escape(cn), "fwd_%s(" % cn, fwd_txt)
        fwd_txt = fwd_txt.replace("real_fwd_%s(" % cn, "real_%s(" % cn)
    drv = [DIFF_PRELUDE, ext_txt, "#undef cxx2c_thrown_real", fwd_txt]
    # fill / eq helpers per struct
    hdr_txt = open(ex.h_path).read()
    unions = {s for s in ex.leafs if ("union %s\n{" % s) in hdr_txt}
    for s, leafs in ex.leafs.items():
        fl, eq = [], []
        ok = s not in unions
        for path, ct in leafs:
            if path.endswith("_vptr") and ct == "ptr":
                continue   # vtable pointer: left null (memset), never compared
            if ct in POOLS:
                fl.append("    p->%s = %s ();" % (path, POOLS[ct]))
                if ct in ("float", "double"):
                    eq.append("    if (!VF_EQ_FP (a->%s, b->%s)) return 0;" % (path, path))
                else:
                    eq.append("    if (a->%s != b->%s) return 0;" % (path, path))
            elif ct.startswith("bitfield:"):
                w = int(ct.split(":")[1])
                # multi-bit fields hold enumerations here (Euler::Axis): stay below the all-ones pattern, which is no enumerator
                fl.append("    p->%s = (vf_rnd () >> 16) %% %d;" % (path, ((1 << w) - 1) if 1 < w < 31 else 2))
                eq.append("    if (a->%s != b->%s) return 0;" % (path, path))
            else:
                ok = False
        if ok:
            drv.append("static void fill_%s (struct %s *p)\n{\n    memset (p, 0, sizeof *p);\n%s\n}" % (s, s, "\n".join(fl)))
            drv.append("static int eq_%s (const struct %s *a, const struct %s *b)\n{\n%s\n    return 1;\n}" % (s, s, s, "\n".join(eq)))
        else:
            drv.append("/* struct %s has pointer/opaque members: not testable */" % s)
    testable_structs = {s for s, leafs in ex.leafs.items() if s not in unions and all(ct in POOLS or ct.startswith("bitfield:") or (p_.endswith("_vptr") and ct == "ptr") for p_, ct in leafs)}
    calls = []
    for cn in ex.order:
        if cn in skip:
            skipped.append({"function": cn, "reason": "listed in diff_skip"})
            continue
        proto = ex.protos[cn]
        m = re.match(r"^(.*?)\b%s\((.*)\)$" % re.escape(cn), proto, re.S)
        if not m:
            skipped.append({"function": cn, "reason": "prototype not parsable"})
            continue
        rt = m.group(1).strip()
        ps = [p.strip() for p in cxx2c.split_top(m.group(2))] if m.group(2).strip() != "void" else []
        decls, fills, args1, args2, cmps = [], [], [], [], []
        good = "ptr" not in ex.pkinds.get(cn, [])
        for i, p in enumerate(ps):
            mm = re.match(r"^(struct \w+|[\w ]+?)\s*(\**)\s*(\w+)((\[\d+\])*)$", p)
            if not mm or mm.group(4):
                good = False
                break
            base, ptr, pname = mm.group(1).strip(), mm.group(2), mm.group(3)
            if len(ptr) > 1:
                good = False
                break
            if base.startswith("struct "):
                sn = base[7:]
                if sn not in testable_structs:
                    good = False
                    break
                decls.append("struct %s x%d, y%d;" % (sn, i, i))
                fills.append("fill_%s (&x%d); y%d = x%d;" % (sn, i, i, i))
                cmps.append("eq_%s (&x%d, &y%d)" % (sn, i, i))
            elif base in POOLS:
                if ptr:
                    # reference to scalar
                    decls.append("%s x%d, y%d;" % (base, i, i))
                    fills.append("x%d = %s (); y%d = x%d;" % (i, POOLS[base], i, i))
                    cmps.append("VF_EQ_FP (x%d, y%d)" % (i, i) if base in ("float", "double") else "(x%d == y%d)" % (i, i))
                else:
                    decls.append("%s x%d, y%d;" % (base, i, i))
                    fills.append("x%d = %s (); y%d = x%d;" % (i, "vf_pool_iparam" if base == "int" else POOLS[base], i, i))
            else:
                good = False
                break
            args1.append(("&x%d" % i) if ptr else "x%d" % i)
            args2.append(("&y%d" % i) if ptr else "y%d" % i)
        if not good:
            skipped.append({"function": cn, "reason": "raw pointer / array / opaque parameter"})
            continue
        mm = re.match(r"^(struct \w+|[\w ]+?)\s*(\**)$", rt)
        if not mm or len(mm.group(2)) > 1:
            skipped.append({"function": cn, "reason": "return type"})
            continue
        rbase, rptr = mm.group(1).strip(), mm.group(2)
        body = ["static void test_%s (void)\n{" % cn, "    " + " ".join(decls), "    for (int it = 0; it < VF_ITERS; it++)\n    {",
                "        " + " ".join(fills),
                "        if (sigsetjmp (vf_jb, 1)) { vf_trapped++; continue; } /* integer division trap: undefined behaviour, case skipped */"]
        # aliasing variant: every third iteration pass the same object for all struct pointer params of equal type
        call1 = "%s (%s)" % (cn, ", ".join(args1))
        call2 = "fwd_%s (%s)" % (cn, ", ".join(args2))
        if rbase == "void" and not rptr:
            body.append("        cxx2c_thrown = 0; %s; int t1 = cxx2c_thrown; cxx2c_thrown = 0; %s; int t2 = cxx2c_thrown;" % (call1, call2))
            rcmp = "1"
        elif rptr:
            body.append("        cxx2c_thrown = 0; %s *r1 = %s; int t1 = cxx2c_thrown; cxx2c_thrown = 0; %s *r2 = %s; int t2 = cxx2c_thrown;" % (rbase, call1, rbase, call2))
            # returned reference: must designate the corresponding object (same offset from a parameter) or equal content
            offs = " || ".join("((char *) r1 - (char *) &x%d == (char *) r2 - (char *) &y%d)" % (i, i)
                               for i, p in enumerate(ps) if "*" in p) or "0"
            rcmp = "(t1 || t2 || %s)" % offs
        else:
            body.append("        cxx2c_thrown = 0; %s r1 = %s; int t1 = cxx2c_thrown; cxx2c_thrown = 0; %s r2 = %s; int t2 = cxx2c_thrown;" % (rbase, call1, rbase, call2))
            if rbase.startswith("struct "):
                if rbase[7:] not in testable_structs:
                    skipped.append({"function": cn, "reason": "return struct not comparable"})
                    continue
                rcmp = "(t1 || eq_%s (&r1, &r2))" % rbase[7:]
            elif rbase in ("float", "double"):
                rcmp = "(t1 || VF_EQ_FP (r1, r2))"
            else:
                rcmp = "(t1 || r1 == r2)"
        allc = " && ".join(["(t1 == t2)", rcmp] + ["(t1 || %s)" % c for c in cmps])
        body.append("        vf_cases++;")
        body.append("        if (!(%s)) { if (vf_bad < 20) printf (\"MISMATCH %s iteration %%d thrown %%d/%%d\\n\", it, t1, t2); vf_bad++; }" % (allc, cn))
        body.append("    }\n}")
        drv.append("\n".join(body))
        calls.append("    test_%s ();" % cn)
        tested.append(cn)
    drv.append("int main (int argc, char **argv)\n{\n    if (argc > 1) vf_rs ^= strtoull (argv[1], 0, 10) * 0x9E3779B97F4A7C15ull;\n    signal (SIGFPE, vf_fpe); signal (SIGSEGV, vf_fpe); signal (SIGBUS, vf_fpe); /* traps = undefined-behaviour inputs (index out of range, division by zero): case skipped */\n%s\n    printf (\"cases %%d bad %%d\\n\", vf_cases, vf_bad);\n    return vf_bad ? 1 : 0;\n}" % "\n".join(calls))
    dpath = os.path.join(outdir, ex.name + ".diff.c")
    _write(dpath, "\n".join(drv))
    res = {"tested": len(tested), "skipped": skipped, "cases": 0, "mismatches": [], "functions": tested}
    if not tested:
        return res
    incs = ["-I" + i for i in ex.includes] + ["-I" + os.path.join(VERIF, "harness"), "-I" + outdir] + ["-D" + d for d in getattr(ex, "defines", [])]
    o1 = os.path.join(outdir, ex.name + ".diff.o")
    o2 = os.path.join(outdir, ex.name + ".shim.o")
    exe = os.path.join(outdir, ex.name + ".diff.bin")
    rc, so, se, _ = sh(["gcc", "-std=gnu11", "-O0", "-w", "-DVF_NATIVE", "-DVF_ITERS=300", "-ffp-contract=off", "-c", dpath, "-o", o1] + incs, timeout=600)
    if rc != 0:
        raise Undecided("extraction (%s): extracted C does not compile natively: %s" % (ex.name, se[-1500:]))
    rc, so, se, _ = sh(["g++", "-std=c++17", "-O0", "-w", "-ffp-contract=off", "-fno-access-control", "-c", ex.shim_cpp, "-o", o2] + incs + ["-I" + p for p in PY_INC], timeout=900)
    if rc != 0:
        raise Undecided("extraction (%s): shim does not compile: %s" % (ex.name, se[-2500:]))
    extra_objs = getattr(ex, "link_objs", [])
    rc, so, se, _ = sh(["g++", o1, o2, "-o", exe, "-lm"] + extra_objs, timeout=300)
    if rc != 0:
        raise Undecided("extraction (%s): diff link failed: %s" % (ex.name, se[-1500:]))
    rc, so, se, _ = sh([exe, str(seed)], timeout=600)
    for f in (o1, o2, exe):
        try:
            os.remove(f)
        except OSError:
            pass
    m = re.search(r"cases (\d+) bad (\d+)", so)
    if not m:
        raise Undecided("extraction (%s): diff run crashed: rc=%s %s" % (ex.name, rc, (so + se)[-800:]))
    res["cases"] = int(m.group(1))
    if int(m.group(2)):
        res["mismatches"] = [l for l in so.split("\n") if l.startswith("MISMATCH")][:20]
    return res
