#!/usr/bin/env python3
import argparse, importlib, json, os, sys, time, traceback
sys.path.insert(0, os.path.dirname(os.path.dirname(os.path.abspath(__file__))))
from vf import core


def main():
    ap = argparse.ArgumentParser()
    ap.add_argument("prop")
    ap.add_argument("--tier", default=os.environ.get("VERIF_TIER", "quick"))
    ap.add_argument("--only", default=None, help="substring filter on unit names (debugging; evidence not written)")
    ap.add_argument("--replay", default=None)
    a = ap.parse_args()
    prop = a.prop.upper()
    if a.replay:
        return replay(prop, a.replay)
    t0 = time.time()
    mod = importlib.import_module("vf.props." + prop.lower())
    bdir = os.path.join(core.BUILD, prop)
    os.makedirs(bdir, exist_ok=True)
    print("== %s tier=%s repo=%s" % (prop, a.tier, core.REPO), flush=True)
    try:
        core.make_config()
        units = mod.units(a.tier)
    except core.Undecided as e:
        print("UNDECIDED property=%s reason=%s" % (prop, e))
        write_undecided(prop, a.tier, str(e), t0)
        return 2
    if a.only:
        units = [u for u in units if a.only in u.name]
    core.run_units(units, bdir)
    if a.only:
        for u in units:
            for o in u.failed:
                print("FAILED", u.name, o["property"], o["description"], json.dumps({k: (v.get("data") if isinstance(v, dict) else v) for k, v in (u.inputs or {}).items()})[:3000])
            if u.status == "undecided":
                print("UNDECIDED", u.name, u.reason)
        return 0
    extra = getattr(mod, "extra_coverage", None)
    rc = core.finish(prop, a.tier, units, t0,
                     extra_cov=extra(units, a.tier) if extra else None,
                     assumptions=getattr(mod, "ASSUMPTIONS", []),
                     not_covered=getattr(mod, "NOT_COVERED", []),
                     extraction=getattr(mod, "EXTRACTION", None))
    return rc


def write_undecided(prop, tier, reason, t0):
    ev = {"property_id": prop, "tier": tier, "seed": int(os.environ.get("VERIF_SEED", "0") or 0),
          "level": "other", "coverage": {"explanation": "check could not run: " + reason,
                                         "evaluations": 0, "distinct_nontrivial": 0},
          "wall_s": round(time.time() - t0, 2), "violations": 0}
    os.makedirs(os.path.join(core.VERIF, "evidence"), exist_ok=True)
    json.dump(ev, open(os.path.join(core.VERIF, "evidence", prop + ".json"), "w"), indent=1)


def replay(prop, path):
    """Re-run the native replay recorded in a replay file against the current tree."""
    rep = json.load(open(path))
    mod = importlib.import_module("vf.props." + prop.lower())
    core.make_config()
    for tier in ("quick", "thorough"):
        for u in mod.units(tier):
            if u.name == rep["unit"]:
                rc, out = core.native_replay(u, rep.get("inputs", {}), core.REPLAY,
                                             "replay_" + prop)
                print(out)
                print("replay exit:", rc)
                return 1 if rc == 1 else 0
    print("unit not found:", rep["unit"])
    return 2


if __name__ == "__main__":
    try:
        sys.exit(main())
    except core.Undecided as e:
        print("UNDECIDED reason=%s" % e)
        sys.exit(2)
