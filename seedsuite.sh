#!/bin/sh
# usage: seedsuite.sh [ids...]  - run every seeded change (seeded/<id>/patch.diff) through its property's quick check on a scratch
# worktree of /repo (never patches /repo itself; evidence goes to build/evidence_scratch).  Prints one line per seed.
cd /verif
W=/tmp/seedsuite_wt
git -C /repo worktree remove --force $W 2>/dev/null
git -C /repo worktree add -q --detach $W HEAD || exit 3
ids="$@"; [ -z "$ids" ] && ids=$(ls seeded)
for id in $ids; do
  p=$(echo $id | cut -d- -f1)
  git -C $W checkout -q -- . ; git -C $W clean -fdq
  if ! git -C $W apply /verif/seeded/$id/patch.diff 2>/dev/null; then echo "$id apply-failed"; continue; fi
  VERIF_REPO=$W ./check $p --tier quick > /tmp/seedsuite_$id.log 2>&1; rc=$?
  echo "$id rc=$rc $(grep -c '^VIOLATION' /tmp/seedsuite_$id.log) violation line(s) $(grep '^VIOLATION' /tmp/seedsuite_$id.log | head -1 | sed 's/.*replay\///' | cut -c1-80) $(grep '^UNDECIDED' /tmp/seedsuite_$id.log | head -1 | cut -c1-120)"
done
git -C /repo worktree remove --force $W
rm -rf /verif/build/scratch_tmp_seedsuite_wt
